From Coq Require Import List NArith ZArith Bool Lia ZifyBool ZifyN.
From GS Require Import model.Sender model.JobLines model.ResendLine proofs.FrameProofs.
Import ListNotations.
Open Scope N_scope.

Lemma rsplit_nonnil l : rsplit l <> [].
Proof. destruct l as [|c l]; cbn; [discriminate|]. destruct (rsep c); [discriminate|]. destruct (rsplit l); discriminate. Qed.

(* splitting at a separator *)
Lemma rsplit_sep a s b : rsep s = true -> rsplit (a ++ s :: b) =
  match rsplit a with [] => rsplit b | _ => removelast (rsplit a) ++ [last (rsplit a) []] ++ rsplit b end.
Proof.
  intros Hs. induction a as [|c a IH]; cbn [app rsplit].
  - rewrite Hs. reflexivity.
  - destruct (rsep c) eqn:Ec.
    + rewrite IH. destruct (rsplit a) as [|t ts] eqn:E; [now destruct (rsplit_nonnil a)|]. reflexivity.
    + rewrite IH. destruct (rsplit a) as [|t ts] eqn:E; [now destruct (rsplit_nonnil a)|].
      destruct ts as [|t2 ts2]; reflexivity.
Qed.

Lemma removelast_last {A} (l : list A) d : l <> [] -> removelast l ++ [last l d] = l.
Proof. intros H. symmetry. now apply app_removelast_last. Qed.

Lemma rwords_sep a s b : rsep s = true -> rwords (a ++ s :: b) = rwords a ++ rwords b.
Proof.
  intros Hs. unfold rwords. rewrite (rsplit_sep a s b Hs).
  destruct (rsplit a) as [|t ts] eqn:E; [now destruct (rsplit_nonnil a)|].
  rewrite app_assoc, removelast_last by discriminate. now rewrite filter_app.
Qed.

Lemma rsplit_word w : forallb (fun c => negb (rsep c)) w = true -> rsplit w = [w].
Proof.
  induction w as [|c w IH]; intros H; [reflexivity|]. cbn in H. apply andb_prop in H as [Hc Hw].
  cbn. apply negb_true_iff in Hc. rewrite Hc, (IH Hw). reflexivity.
Qed.
Lemma rwords_word w : w <> [] -> forallb (fun c => negb (rsep c)) w = true -> rwords w = [w].
Proof. intros Hne H. unfold rwords. rewrite (rsplit_word w H). cbn. destruct w; [contradiction|reflexivity]. Qed.

(* a decimal number is one word, and int() reads it back *)
Lemma digit_not_sep c : is_digit c = true -> rsep c = false.
Proof. unfold is_digit, rsep, is_ws. lia. Qed.

Lemma dec_Z_word k : forallb (fun c => negb (rsep c)) (dec_Z k) = true /\ dec_Z k <> [] /\ int_word (dec_Z k) = Some k.
Proof.
  destruct (dec_N_spec (Z.to_N (- k))) as (A1 & _ & A3). destruct (dec_N_spec (Z.to_N k)) as (B1 & _ & B3).
  assert (Hd : forall l, forallb is_digit l = true -> forallb (fun c => negb (rsep c)) l = true).
  { intros l H. rewrite forallb_forall in *. intros c Hc. now rewrite (digit_not_sep c (H c Hc)). }
  pose proof (parse_dec_Z k) as Hp. unfold dec_Z in *. destruct (k <? 0)%Z.
  - split; [cbn; now apply Hd|]. split; [discriminate|]. exact Hp.
  - split; [now apply Hd|]. split; [exact B3|].
    unfold int_word. destruct (dec_N (Z.to_N k)) as [|c r] eqn:E; [contradiction|].
    destruct (N.eqb_spec c 43) as [->|Hne].
    + cbn in B1. discriminate B1.
    + destruct c as [|p]; [exact Hp|]. repeat (destruct p as [p|p|]; try exact Hp). contradiction.
Qed.

(* the line formats firmwares use: what precedes the number, as (text, last character) -- the last character is a separator *)
Definition resend_heads : list (list N * N) :=
  [ ([82;101;115;101;110;100;58], 32)        (* "Resend: "   Marlin *)
  ; ([82;101;115;101;110;100], 58)           (* "Resend:"    Repetier *)
  ; ([114;115], 32)                          (* "rs "        Sprinter *)
  ; ([114;115;32], 78)                       (* "rs N"       Teacup: rs N2 Expected checksum 67 *)
  ; ([82;101;115;101;110;100;58;32;78], 58)  (* "Resend: N:" *)
  ; ([114;101;115;101;110;100], 32)          (* "resend "    *)
  ; ([82;69;83;69;78;68;58], 32) ].          (* "RESEND: "   *)

Lemma first_int_app a b : first_int a = None -> first_int (a ++ b) = first_int b.
Proof. induction a as [|w a IH]; cbn; [reflexivity|]. destruct (int_word w); [discriminate|exact IH]. Qed.

Theorem resend_request_formats h0 s k tail : In (h0, s) resend_heads ->
  match tail with [] => True | c :: _ => rsep c = true end ->
  resend_request (h0 ++ s :: dec_Z k ++ tail) = Some k.
Proof.
  intros Hin Ht. destruct (dec_Z_word k) as (Hw & Hne & Hint).
  assert (Hnum : rwords (dec_Z k ++ tail) = dec_Z k :: rwords (match tail with [] => [] | _ :: t => t end)).
  { destruct tail as [|c tail]; [rewrite app_nil_r; now rewrite rwords_word|].
    rewrite (rwords_sep _ c tail Ht), rwords_word by assumption. reflexivity. }
  assert (Hgen : rsep s = true -> is_resend (h0 ++ s :: dec_Z k ++ tail) = true -> first_int (rwords h0) = None ->
    resend_request (h0 ++ s :: dec_Z k ++ tail) = Some k).
  { intros Hs Hr Hh. unfold resend_request. rewrite Hr, (rwords_sep h0 s _ Hs), (first_int_app _ _ Hh), Hnum.
    cbn [first_int]. now rewrite Hint. }
  unfold resend_heads in Hin. cbn [In] in Hin.
  repeat (destruct Hin as [E|Hin]; [injection E as <- <-; apply Hgen; reflexivity|]). contradiction.
Qed.
