(* Proofs about the socket line splitter (model/LineBuf.v). *)
From Coq Require Import List NArith Bool Lia.
From GS Require Import model.LineBuf.
Import ListNotations.
Open Scope N_scope.

Definition no_nl (c : bytes) : Prop := ~ In NL c.
(* a complete line: ends with its only newline *)
Definition line_ok (l : bytes) : Prop := exists p, l = p ++ [NL] /\ no_nl p.
(* the unterminated tail handed over at end-of-stream *)
Definition tail_ok (l : bytes) : Prop := l <> [] /\ no_nl l.
Definition res_ok (r : res) : Prop :=
  match r with RLine l => line_ok l \/ tail_ok l | RFuel => False | _ => True end.
(* only the last buffered chunk may contain a newline *)
Definition BufInv (buf : list bytes) : Prop := Forall no_nl (removelast buf).
Definition Clean (buf : list bytes) : Prop := Forall no_nl buf.

Lemma find_nl_none c : find_nl c = None <-> no_nl c.
Proof.
  unfold no_nl; induction c as [|b c IH]; simpl; [tauto|].
  destruct (N.eqb_spec b NL) as [->|Hne].
  - split; [discriminate|]. intros H; exfalso; apply H; now left.
  - destruct (find_nl c) eqn:E.
    + split; [discriminate|]. intros H. exfalso.
      assert (Hc : ~ In NL c) by (intros Hin; apply H; now right).
      apply IH in Hc. discriminate.
    + split; [|reflexivity]. intros _ [Hb|Hin]; [congruence|].
      destruct IH as [IH1 _]. now apply IH1.
Qed.

Lemma find_nl_some c i : find_nl c = Some i ->
  exists p, firstn (S i) c = p ++ [NL] /\ no_nl p.
Proof.
  revert i; induction c as [|b c IH]; simpl; intros i H; [discriminate|].
  destruct (N.eqb_spec b NL) as [->|Hne].
  - injection H as <-. exists []. split; [reflexivity|]. intros [].
  - destruct (find_nl c) as [j|] eqn:E; [|discriminate]. injection H as <-.
    destruct (IH j eq_refl) as (p & Hp & Hnp).
    exists (b :: p). split.
    + change (firstn (S (S j)) (b :: c)) with (b :: firstn (S j) c). now rewrite Hp.
    + intros [Hb|Hin]; [congruence|]. now apply Hnp.
Qed.

Lemma removelast_last {A} (l : list A) d : l <> [] -> l = removelast l ++ [last l d].
Proof. intros H. now apply app_removelast_last. Qed.

Lemma concat_snoc {A} (l : list (list A)) x : concat (l ++ [x]) = concat l ++ x.
Proof. rewrite concat_app. simpl. now rewrite app_nil_r. Qed.

Lemma BufInv_nil : BufInv []. Proof. constructor. Qed.
Lemma BufInv_single c : BufInv [c]. Proof. constructor. Qed.
Lemma Clean_BufInv buf : Clean buf -> BufInv buf.
Proof.
  unfold Clean, BufInv. intros H. destruct buf as [|c buf] using rev_ind; [constructor|].
  rewrite removelast_last with (d := []) in H by (destruct buf; discriminate).
  rewrite removelast_app in * by discriminate. simpl in *. rewrite app_nil_r in *.
  apply Forall_app in H. tauto.
Qed.

Lemma BufInv_snoc buf c : Clean buf -> BufInv (buf ++ [c]).
Proof.
  unfold BufInv. intros H. rewrite removelast_app by discriminate. simpl.
  now rewrite app_nil_r.
Qed.

Lemma readline_buf_spec buf : BufInv buf ->
  match readline_buf buf with
  | (Some l, buf') => concat buf = l ++ concat buf' /\ line_ok l /\ BufInv buf'
  | (None, buf') => buf' = buf /\ Clean buf
  end.
Proof.
  intros HI. unfold readline_buf. destruct buf as [|c0 buf0].
  - split; [reflexivity|constructor].
  - remember (c0 :: buf0) as buf eqn:Eb.
    assert (Hne : buf <> []) by (subst; discriminate). clear Eb.
    set (chunk := last buf []).
    pose proof (removelast_last buf [] Hne) as Hsplit. fold chunk in Hsplit.
    destruct (find_nl chunk) as [eol|] eqn:Ef.
    + destruct (find_nl_some _ _ Ef) as (p & Hp & Hnp).
      assert (Hc : concat buf = (concat (removelast buf) ++ firstn (S eol) chunk)
                                 ++ skipn (S eol) chunk).
      { rewrite <- app_assoc, firstn_skipn, <- concat_snoc. f_equal. exact Hsplit. }
      assert (Hline : line_ok (concat (removelast buf) ++ firstn (S eol) chunk)).
      { exists (concat (removelast buf) ++ p). split.
        - now rewrite Hp, app_assoc.
        - intros Hin. apply in_app_or in Hin as [Hin|Hin]; [|now apply Hnp].
          apply in_concat in Hin as (x & Hx & Hin).
          unfold BufInv in HI. rewrite Forall_forall in HI. exact (HI x Hx Hin). }
      destruct (skipn (S eol) chunk) as [|r rest] eqn:Es.
      * rewrite app_nil_r in Hc. split; [simpl; now rewrite app_nil_r|].
        split; [exact Hline|apply BufInv_nil].
      * split; [simpl; now rewrite app_nil_r|]. split; [exact Hline|apply BufInv_single].
    + split; [reflexivity|]. unfold Clean. rewrite Hsplit. apply Forall_app. split.
      * exact HI.
      * constructor; [|constructor]. now apply find_nl_none.
Qed.

(* ---- the environment ---- *)

Definition payload (r : rd) : bytes := match r with Chunk c => c | _ => [] end.

Lemma read1_spec e : let (r, e') := read1 e in
  data_of (reads e) = payload r ++ data_of (reads e') /\
  (length (reads e') < length (reads e) \/ (reads e = [] /\ r = Eof /\ e' = e))%nat.
Proof.
  unfold read1. destruct (reads e) as [|r rs] eqn:E; simpl.
  - rewrite E. split; [reflexivity|]. right; auto.
  - split; [destruct r; reflexivity|]. left; lia.
Qed.

Lemma pull_spec e : let (r, e') := pull e in
  data_of (reads e) = payload r ++ data_of (reads e') /\
  (length (reads e') < length (reads e) \/ (reads e = [] /\ r = Eof /\ reads e' = []))%nat.
Proof.
  unfold pull. pose proof (read1_spec e) as H1. destruct (read1 e) as [r e1].
  destruct H1 as [Hd Hl]. destruct r as [c| |].
  - split; [exact Hd|]. destruct Hl as [Hl|(Hr & Hx & He)]; [now left|discriminate].
  - destruct Hl as [Hl|(Hr & Hx & He)]; [|discriminate].
    unfold select1. destruct (selects e1) as [|b bs] eqn:Es.
    + split; [exact Hd|now left].
    + destruct b.
      * set (e2 := {| reads := reads e1; selects := bs |}).
        pose proof (read1_spec e2) as H2. destruct (read1 e2) as [r2 e3].
        destruct H2 as [Hd2 Hl2]. simpl in *. split.
        -- rewrite Hd, Hd2. reflexivity.
        -- left. destruct Hl2 as [Hl2|(Hr2 & _ & He3)]; [lia|]. subst e3. simpl. lia.
      * simpl. split; [exact Hd|now left].
  - split; [exact Hd|]. destruct Hl as [Hl|(Hr & Hx & He)]; [now left|].
    right. subst e1. auto.
Qed.

Lemma line_of_concat_nil buf : concat buf = [] ->
  forall (X : bytes), X = concat buf ++ X.
Proof. intros ->. reflexivity. Qed.

(* a well-formed script: non-empty chunks and "no data yet" results only; the end of
   the script is the end of the stream *)
Definition wf_rd (r : rd) : Prop :=
  match r with Chunk (_ :: _) => True | Again => True | _ => False end.
Definition wf (e : env) : Prop := Forall wf_rd (reads e).

Lemma read1_wf e : wf e -> let (r, e') := read1 e in
  wf e' /\ (r = Eof -> reads e' = []) /\ (forall c, r = Chunk c -> c <> []).
Proof.
  unfold wf, read1. intros H. destruct (reads e) as [|r rs] eqn:E; simpl.
  - rewrite E. repeat split; auto; discriminate.
  - inversion H as [|? ? Hr Hrs]; subst. repeat split; auto.
    + intros ->. destruct Hr.
    + intros c ->. destruct c; [destruct Hr|discriminate].
Qed.

Lemma pull_wf e : wf e -> let (r, e') := pull e in
  wf e' /\ (r = Eof -> reads e' = []) /\ (forall c, r = Chunk c -> c <> []).
Proof.
  intros H. unfold pull. pose proof (read1_wf e H) as H1.
  destruct (read1 e) as [r e1]. destruct H1 as (Hw & He & Hc).
  destruct r as [c| |]; [repeat split; auto| |repeat split; auto].
  unfold select1. destruct (selects e1) as [|b bs] eqn:Es.
  - repeat split; auto; discriminate.
  - destruct b.
    + apply (read1_wf {| reads := reads e1; selects := bs |}). exact Hw.
    + repeat split; auto; discriminate.
Qed.

Lemma Clean_concat buf : Clean buf -> no_nl (concat buf).
Proof.
  intros H Hin. apply in_concat in Hin as (x & Hx & Hin).
  unfold Clean in H. rewrite Forall_forall in H. exact (H x Hx Hin).
Qed.

(* the read loop: conservation of bytes, shape of the result, buffer invariant *)
Lemma sock_loop_spec fuel : forall buf e, Clean buf -> (length (reads e) < fuel)%nat ->
  match sock_loop fuel buf e with
  | (r, buf', e') =>
      concat buf ++ data_of (reads e) = line_of r ++ concat buf' ++ data_of (reads e') /\
      res_ok r /\ BufInv buf' /\ (r = REof -> buf' = []) /\
      (wf e -> wf e' /\ (r = REof -> reads e' = []) /\
               (forall l, r = RLine l -> tail_ok l -> buf' = [] /\ reads e' = []))
  end.
Proof.
  induction fuel as [|fuel IH]; intros buf e HC Hf; [lia|].
  cbn [sock_loop]. pose proof (pull_spec e) as Hp. pose proof (pull_wf e) as Hw.
  destruct (pull e) as [r e']. destruct Hp as [Hd Hl].
  assert (Heofcase :
    (r = Eof \/ r = Chunk []) ->
    match (match concat buf with [] => (REof, [], e') | l => (RLine l, [], e') end)
    with (r0, buf', e'0) =>
      concat buf ++ data_of (reads e) = line_of r0 ++ concat buf' ++ data_of (reads e'0) /\
      res_ok r0 /\ BufInv buf' /\ (r0 = REof -> buf' = []) /\
      (wf e -> wf e'0 /\ (r0 = REof -> reads e'0 = []) /\
               (forall l, r0 = RLine l -> tail_ok l -> buf' = [] /\ reads e'0 = []))
    end).
  { intros Hr. assert (Hpay : payload r = []) by (destruct Hr as [->| ->]; reflexivity).
    rewrite Hpay in Hd. simpl in Hd.
    destruct (concat buf) as [|b l] eqn:Ec.
    - simpl. split; [now rewrite Hd|]. split; [exact I|]. split; [apply BufInv_nil|].
      split; [reflexivity|]. intros Hwf. destruct (Hw Hwf) as (Hw' & He & Hc).
      split; [exact Hw'|]. split.
      + intros _. destruct Hr as [->| ->]; [now apply He|]. exfalso. now apply (Hc []).
      + intros l0 Hl0. discriminate.
    - simpl. split; [now rewrite Hd|]. split.
      { right. split; [discriminate|]. rewrite <- Ec. now apply Clean_concat. }
      split; [apply BufInv_nil|]. split; [discriminate|].
      intros Hwf. destruct (Hw Hwf) as (Hw' & He & Hc). split; [exact Hw'|].
      split; [discriminate|]. intros l0 _ _. split; [reflexivity|].
      destruct Hr as [->| ->]; [now apply He|]. exfalso. now apply (Hc []). }
  destruct r as [[|b c]| |].
  - apply Heofcase. now right.
  - pose proof (readline_buf_spec (buf ++ [b :: c]) (BufInv_snoc _ _ HC)) as Hb.
    destruct (readline_buf (buf ++ [b :: c])) as [[l|] buf''].
    + destruct Hb as (Hcc & Hlo & HI). split.
      { rewrite Hd. simpl payload. rewrite app_assoc, <- concat_snoc, Hcc.
        simpl. now rewrite <- app_assoc. }
      split; [now left|]. split; [exact HI|]. split; [discriminate|].
      intros Hwf. destruct (Hw Hwf) as (Hw' & He & Hc). split; [exact Hw'|].
      split; [discriminate|]. intros l0 Hl0 [_ Hno]. injection Hl0 as <-.
      exfalso. destruct Hlo as (p & -> & _). apply Hno. apply in_or_app. right. now left.
    + destruct Hb as (-> & HC').
      assert (Hlen : (length (reads e') < fuel)%nat).
      { destruct Hl as [Hl|(_ & Hx & _)]; [lia|discriminate]. }
      specialize (IH (buf ++ [b :: c]) e' HC' Hlen).
      destruct (sock_loop fuel (buf ++ [b :: c]) e') as [[r0 buf0] e0].
      destruct IH as (Hcc & Hro & HI & He0 & Hwf0). split.
      { rewrite Hd. simpl payload. rewrite app_assoc, <- concat_snoc. exact Hcc. }
      split; [exact Hro|]. split; [exact HI|]. split; [exact He0|].
      intros Hwf. destruct (Hw Hwf) as (Hw' & _ & _). now apply Hwf0.
  - simpl. split; [now rewrite Hd|]. split; [exact I|]. split; [now apply Clean_BufInv|].
    split; [discriminate|]. intros Hwf. destruct (Hw Hwf) as (Hw' & _ & _).
    split; [exact Hw'|]. split; discriminate.
  - apply Heofcase. now left.
Qed.

Lemma readline_socket_spec buf e : BufInv buf ->
  match readline_socket buf e with
  | (r, buf', e') =>
      concat buf ++ data_of (reads e) = line_of r ++ concat buf' ++ data_of (reads e') /\
      res_ok r /\ BufInv buf' /\ (r = REof -> buf' = []) /\
      (wf e -> wf e' /\ (r = REof -> reads e' = []) /\
               (forall l, r = RLine l -> tail_ok l -> buf' = [] /\ reads e' = []))
  end.
Proof.
  intros HI. unfold readline_socket. pose proof (readline_buf_spec buf HI) as Hb.
  destruct (readline_buf buf) as [[[|b l]|] buf'].
  - (* an empty "line" cannot be produced, but the code tests for it *)
    destruct Hb as (_ & (p & Hp & _) & _). destruct p; discriminate.
  - destruct Hb as (Hc & Hlo & HI'). split; [simpl; now rewrite Hc, <- app_assoc|].
    split; [now left|]. split; [exact HI'|]. split; [discriminate|].
    intros Hwf. split; [exact Hwf|]. split; [discriminate|].
    intros l0 Hl0 [_ Hno]. injection Hl0 as <-. exfalso.
    destruct Hlo as (p & Hp & _). apply Hno. rewrite Hp. apply in_or_app. right. now left.
  - destruct Hb as (-> & HC). apply sock_loop_spec; [exact HC|lia].
Qed.

Lemma lines_of_cons r rs : concat (lines_of (r :: rs)) = line_of r ++ concat (lines_of rs).
Proof. unfold lines_of. simpl. destruct (line_of r); reflexivity. Qed.

(* C17, conservation: after every number of calls, what was returned, what is buffered
   and what the peer has not sent yet add up to the original stream, in order *)
Theorem session_conservation k : forall buf e, BufInv buf ->
  match session k buf e with
  | (rs, buf', e') =>
      concat buf ++ data_of (reads e)
        = concat (lines_of rs) ++ concat buf' ++ data_of (reads e') /\
      Forall res_ok rs /\ BufInv buf' /\ (last rs REmpty = REof -> buf' = [])
  end.
Proof.
  induction k as [|k IH]; intros buf e HI; cbn [session].
  - repeat split; auto. discriminate.
  - pose proof (readline_socket_spec buf e HI) as Hs.
    destruct (readline_socket buf e) as [[r buf1] e1].
    destruct Hs as (Hc & Hro & HI1 & He & _).
    assert (Hgen : r <> REof ->
      match (let '(rs, buf'', e'') := session k buf1 e1 in (r :: rs, buf'', e'')) with
      | (rs, buf', e') =>
        concat buf ++ data_of (reads e)
          = concat (lines_of rs) ++ concat buf' ++ data_of (reads e') /\
        Forall res_ok rs /\ BufInv buf' /\ (last rs REmpty = REof -> buf' = [])
      end).
    { intros Hne. specialize (IH buf1 e1 HI1).
      destruct (session k buf1 e1) as [[rs buf2] e2].
      destruct IH as (Hc2 & Hr2 & HI2 & He2). split.
      { rewrite lines_of_cons, Hc, Hc2. now rewrite <- app_assoc. }
      split; [now constructor|]. split; [exact HI2|].
      destruct rs as [|r' rs']; [simpl; intros Hx; congruence|]. exact He2. }
    destruct r; try (apply Hgen; discriminate).
    rewrite (He eq_refl) in *. split; [exact Hc|]. split; [repeat constructor|].
    split; [apply BufInv_nil|reflexivity].
Qed.

(* ---- the specification [cut] ---- *)

Lemma cut_aux_line cur p s : no_nl p ->
  cut_aux cur (p ++ NL :: s) = (rev cur ++ p ++ [NL]) :: cut_aux [] s.
Proof.
  revert cur; induction p as [|b p IH]; intros cur Hn; simpl.
  - reflexivity.
  - destruct (N.eqb_spec b NL) as [->|Hne]; [exfalso; apply Hn; now left|].
    rewrite IH by (intros Hin; apply Hn; now right). simpl. now rewrite <- app_assoc.
Qed.

Lemma cut_aux_tail cur l : no_nl l -> rev cur ++ l <> [] ->
  cut_aux cur l = [rev cur ++ l].
Proof.
  revert cur; induction l as [|b l IH]; intros cur Hn Hne; simpl.
  - rewrite app_nil_r in *. destruct cur; [now destruct Hne|reflexivity].
  - destruct (N.eqb_spec b NL) as [->|Hb]; [exfalso; apply Hn; now left|].
    rewrite IH.
    + simpl. now rewrite <- app_assoc.
    + intros Hin; apply Hn; now right.
    + simpl. rewrite <- app_assoc. simpl. destruct (rev cur); discriminate.
Qed.

Lemma cut_line l s : line_ok l -> cut (l ++ s) = l :: cut s.
Proof.
  intros (p & -> & Hn). unfold cut. rewrite <- app_assoc. simpl.
  now rewrite cut_aux_line.
Qed.

Lemma cut_tail l : tail_ok l -> cut l = [l].
Proof. intros [Hne Hn]. unfold cut. now rewrite cut_aux_tail. Qed.

Lemma lines_of_line l rs : l <> [] -> lines_of (RLine l :: rs) = l :: lines_of rs.
Proof. unfold lines_of. simpl. destruct l; [congruence|reflexivity]. Qed.

Lemma line_ok_ne l : line_ok l -> l <> [].
Proof. intros (p & -> & _). destruct p; discriminate. Qed.

(* C17, the lines are the stream cut after each newline, for every fragmentation and
   every placement of "no data yet" results; the unterminated tail arrives at the end *)
Theorem session_cut k : forall buf e, BufInv buf -> wf e ->
  match session k buf e with
  | (rs, buf', e') =>
      last rs REmpty = REof ->
      lines_of rs = cut (concat buf ++ data_of (reads e))
  end.
Proof.
  induction k as [|k IH]; intros buf e HI Hwf; cbn [session].
  - discriminate.
  - pose proof (readline_socket_spec buf e HI) as Hs.
    destruct (readline_socket buf e) as [[r buf1] e1].
    destruct Hs as (Hc & Hro & HI1 & He & Hw). destruct (Hw Hwf) as (Hwf1 & Heof & Htail).
    assert (Hgen : r <> REof ->
      match (let '(rs, buf'', e'') := session k buf1 e1 in (r :: rs, buf'', e'')) with
      | (rs, buf', e') =>
          last rs REmpty = REof -> lines_of rs = cut (concat buf ++ data_of (reads e))
      end).
    { intros Hne. specialize (IH buf1 e1 HI1 Hwf1).
      destruct (session k buf1 e1) as [[rs buf2] e2]. intros Hlast.
      assert (Hlast' : last rs REmpty = REof).
      { destruct rs as [|r' rs']; [simpl in Hlast; congruence|exact Hlast]. }
      specialize (IH Hlast'). rewrite Hc. destruct r as [|l| |]; simpl in Hro.
      - simpl. exact IH.
      - destruct Hro as [Hlo|Hto].
        + rewrite lines_of_line by now apply line_ok_ne. rewrite cut_line by exact Hlo.
          now rewrite IH.
        + destruct (Htail l eq_refl Hto) as [-> Hr]. rewrite Hr in *. simpl in *.
          rewrite app_nil_r. rewrite lines_of_line by apply Hto.
          rewrite cut_tail by exact Hto. now rewrite IH.
      - congruence.
      - destruct Hro. }
    destruct r; try (apply Hgen; discriminate).
    intros _. rewrite Hc, (He eq_refl), (Heof eq_refl). reflexivity.
Qed.

(* the session does reach end-of-stream: READ_EOF is returned within
   (number of script entries + number of newlines + 2) calls -- stated for the simple
   bound used by the correspondence harness: it keeps calling until READ_EOF *)

(* non-vacuity: a line spanning three chunks, two lines in one chunk, a timeout in the
   middle of a line, and an unterminated tail *)
Example session_example :
  let e := {| reads := [Chunk [71;49]; Again; Chunk [32]; Chunk [88;10;71;50;10;77]; Chunk [53]];
              selects := [false] |} in
  let '(rs, buf', _) := session 10 [] e in
  lines_of rs = [[71;49;32;88;10]; [71;50;10]; [77;53]] /\ last rs REmpty = REof /\ wf e.
Proof. vm_compute. repeat split; repeat constructor. Qed.

(* two fragmentations of one stream give the same lines *)
Lemma session_fragmentation_independent k1 k2 e1 e2 : wf e1 -> wf e2 ->
  data_of (reads e1) = data_of (reads e2) ->
  match session k1 [] e1, session k2 [] e2 with
  | (rs1, _, _), (rs2, _, _) => last rs1 REmpty = REof -> last rs2 REmpty = REof -> lines_of rs1 = lines_of rs2
  end.
Proof.
  intros H1 H2 Hd. pose proof (session_cut k1 [] e1 BufInv_nil H1) as C1. pose proof (session_cut k2 [] e2 BufInv_nil H2) as C2.
  destruct (session k1 [] e1) as [[rs1 b1] e1']. destruct (session k2 [] e2) as [[rs2 b2] e2'].
  intros L1 L2. rewrite (C1 L1), (C2 L2), Hd. reflexivity.
Qed.
