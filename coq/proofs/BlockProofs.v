From Coq Require Import List NArith ZArith QArith Qround Bool Lia ZifyBool ZifyN.
From GS Require Import model.FloatFmt model.Block proofs.FloatFmtProofs.
Import ListNotations.

(* ---------------------------------------------------------------- reading back *)
Lemma split_sp_nonempty l : split_sp l <> [].
Proof. destruct l as [|c l]; cbn; [discriminate|]. destruct (c =? SPC)%N; [discriminate|]. destruct (split_sp l); discriminate. Qed.

Lemma split_token t : ~ In SPC t -> split_sp t = [t].
Proof.
  induction t as [|c t IH]; intros H; [reflexivity|]. cbn.
  destruct (N.eqb_spec c SPC) as [->|_]; [exfalso; apply H; now left|].
  rewrite IH by (intros Hin; apply H; now right). reflexivity.
Qed.

Lemma split_token_sp t rest : ~ In SPC t -> split_sp (t ++ SPC :: rest) = t :: split_sp rest.
Proof.
  induction t as [|c t IH]; intros H; cbn [app split_sp].
  - rewrite N.eqb_refl. reflexivity.
  - destruct (N.eqb_spec c SPC) as [->|_]; [exfalso; apply H; now left|].
    rewrite IH by (intros Hin; apply H; now right). reflexivity.
Qed.

Theorem split_join ts : ts <> [] -> Forall (fun t => ~ In SPC t) ts -> split_sp (join_sp ts) = ts.
Proof.
  induction ts as [|t ts IH]; intros Hne H; [contradiction|].
  inversion H as [|? ? H1 H2]; subst. destruct ts as [|t2 ts].
  - cbn. now apply split_token.
  - cbn [join_sp]. rewrite split_token_sp by exact H1. f_equal. apply IH; [discriminate|exact H2].
Qed.

Lemma span_label label rest : forallb is_letter label = true ->
  match rest with c :: _ => is_letter c = false | [] => True end ->
  span_letters (label ++ rest) = (label, rest).
Proof.
  induction label as [|c label IH]; intros Hl Hr; cbn [app].
  - destruct rest as [|c r]; [reflexivity|]. cbn. now rewrite Hr.
  - cbn in Hl. apply andb_prop in Hl as [Hc Hl]. cbn. rewrite Hc, (IH Hl Hr). reflexivity.
Qed.

(* ---------------------------------------------------------------- number texts are plain decimals *)
Lemma step_k_nonneg f dp k r : (0 <= f_m f)%Z -> step_k f dp k = Some r -> (0 <= d_q r)%Z.
Proof.
  intros Hm. unfold step_k. cbv zeta.
  assert (Hd : (0 <= Qfloor (fval f * pow10q k))%Z).
  { change 0%Z with (Qfloor 0). apply Qfloor_resp_le. apply Qmult_le_0_compat; [|apply Qlt_le_weak, pow10q_pos].
    unfold fval. apply Qmult_le_0_compat; [|apply Qlt_le_weak, pow2q_pos]. change 0%Q with (inject_Z 0). rewrite <- Zle_Qle. exact Hm. }
  set (d := Qfloor (fval f * pow10q k)) in *. clearbody d.
  destruct (_ || _ || _); [|discriminate]. intros H. injection H as <-. cbn [d_q].
  destruct (if negb _ then _ else _); lia.
Qed.

Lemma gen_nonneg fuel : forall f dp k r, (0 <= f_m f)%Z -> gen fuel f dp k = Some r -> (0 <= d_q r)%Z.
Proof.
  induction fuel as [|n IH]; intros f dp k r Hm; cbn [gen]; [discriminate|].
  destruct (step_k f dp k) as [r'|] eqn:E.
  - intros H. injection H as <-. eapply step_k_nonneg; eauto.
  - apply IH. exact Hm.
Qed.

Definition plain_text (t : list N) : Prop :=
  exists neg ip fp, t = (if neg : bool then [45%N] else []) ++ ip ++ (match fp with [] => [] | _ => 46%N :: fp end) /\
    ip <> [] /\ Forall digit_char ip /\ Forall digit_char fp.

Lemma decode_nonneg eb mb bits f : (0 <= bits)%Z -> decode eb mb bits = Some (FVal f) -> (0 <= f_m f)%Z.
Proof.
  intros Hb. unfold decode.
  assert (H2 : (0 <= 2 ^ mb)%Z) by (apply Z.pow_nonneg; lia).
  assert (Hm : (0 <= bits mod 2 ^ mb)%Z) by (apply Z_mod_nonneg_nonneg; assumption).
  destruct (_ =? _)%Z; [discriminate|]. destruct (_ =? 0)%Z.
  - destruct (_ =? 0)%Z; [discriminate|]. intros H. injection H as <-. exact Hm.
  - intros H. injection H as <-. cbn. lia.
Qed.

Theorem number_plain eb mb bits dp t : (0 <= bits)%Z -> number eb mb bits dp = Some t -> plain_text t.
Proof.
  intros Hb. unfold number. destruct (decode eb mb bits) as [[|f]|] eqn:Ed; [| |discriminate].
  - cbn. intros H. injection H as <-. exists false, [48%N], []. cbn. repeat split; [discriminate| |constructor].
    repeat constructor; unfold digit_char; lia.
  - cbn [number_text]. destruct (fmt_digits f dp) as [r|] eqn:Ef; [|discriminate]. intros H. injection H as <-.
    assert (Hq : (0 <= d_q r)%Z).
    { unfold fmt_digits in Ef. eapply gen_nonneg; [|exact Ef]. eapply decode_nonneg; eauto. }
    destruct (render_shape (f_neg f) r Hq) as (ip & fp & E & Hne & Hip & Hfp & _).
    exists (f_neg f), ip, fp. auto.
Qed.

Lemma digit_not_sp c : digit_char c -> c <> SPC /\ is_letter c = false.
Proof. unfold digit_char, SPC, is_letter. intros H. split; lia. Qed.

Lemma plain_no_space t : plain_text t -> ~ In SPC t.
Proof.
  intros (neg & ip & fp & -> & _ & Hip & Hfp) Hin.
  apply in_app_or in Hin as [Hin|Hin]; [destruct neg; [destruct Hin as [E|[]]; discriminate E|contradiction]|].
  apply in_app_or in Hin as [Hin|Hin].
  - rewrite Forall_forall in Hip. destruct (digit_not_sp _ (Hip _ Hin)) as [A _]. now apply A.
  - destruct fp as [|d fp]; [contradiction|]. destruct Hin as [E|Hin]; [discriminate E|].
    rewrite Forall_forall in Hfp. destruct (digit_not_sp _ (Hfp _ Hin)) as [A _]. now apply A.
Qed.

Lemma plain_head t : plain_text t -> match t with c :: _ => is_letter c = false | [] => True end.
Proof.
  intros (neg & ip & fp & -> & Hne & Hip & _). destruct neg; [reflexivity|]. cbn [app].
  destruct ip as [|d ip]; [contradiction|]. cbn. inversion Hip; subst. now destruct (digit_not_sp d).
Qed.
Lemma plain_nonempty t : plain_text t -> t <> [].
Proof. intros (neg & ip & fp & -> & Hne & _) E. destruct neg; [discriminate|]. destruct ip; [contradiction|discriminate]. Qed.

(* ---------------------------------------------------------------- the whole block *)
Definition label_ok (l : list N) : Prop := l <> [] /\ forallb is_letter l = true.
Definition bword_ok (w : bword) : Prop := label_ok (w_label w) /\ (0 <= w_bits w)%Z.

Lemma letters_no_space l : forallb is_letter l = true -> ~ In SPC l.
Proof.
  intros H Hin. rewrite forallb_forall in H. specialize (H _ Hin). discriminate H.
Qed.

Lemma all_some_map {A B} (f : A -> option B) l out : all_some (map f l) = Some out ->
  Forall2 (fun a b => f a = Some b) l out.
Proof.
  revert out. induction l as [|a l IH]; intros out; cbn.
  - intros H. injection H as <-. constructor.
  - destruct (f a) as [b|] eqn:E; [|discriminate]. destruct (all_some (map f l)) as [o|]; [|discriminate].
    cbn. intros H. injection H as <-. constructor; [exact E|now apply IH].
Qed.

(* every word the formatter writes: label then a plain decimal; reading it back splits it exactly there *)
Lemma word_text_spec dp w t : bword_ok w -> word_text dp w = Some t ->
  exists n, word_number dp w = Some n /\ t = w_label w ++ n /\ plain_text n /\ ~ In SPC t /\ span_letters t = (w_label w, n).
Proof.
  intros [[Hne Hl] Hb]. unfold word_text. destruct (word_number dp w) as [n|] eqn:E; [|discriminate].
  cbn. intros H. injection H as <-. pose proof (number_plain _ _ _ _ _ Hb E) as Hp.
  exists n. repeat split; auto.
  - intros Hin. apply in_app_or in Hin as [Hin|Hin]; [now apply (letters_no_space _ Hl)|now apply (plain_no_space _ Hp)].
  - apply span_label; [exact Hl|now apply plain_head].
Qed.

Theorem block_readback dp cmd ws txt : cmd <> [] -> ~ In SPC cmd -> Forall bword_ok ws ->
  command_text dp cmd ws = Some txt ->
  exists nums, Forall2 (fun w n => word_number dp w = Some n /\ plain_text n) ws nums /\
    split_sp txt = cmd :: map (fun wn => w_label (fst wn) ++ snd wn) (combine ws nums) /\
    Forall (fun wn => span_letters (w_label (fst wn) ++ snd wn) = (w_label (fst wn), snd wn)) (combine ws nums).
Proof.
  intros Hc Hcs Hw. unfold command_text. destruct ws as [|w0 ws0] eqn:Ews.
  - intros H. injection H as <-. exists []. split; [constructor|]. split; [now apply split_token|constructor].
  - assert (Hnz : ws <> []) by (rewrite Ews; discriminate).
    rewrite <- Ews in *. clear Ews w0 ws0. unfold params_text.
    destruct (all_some (map (word_text dp) ws)) as [ts|] eqn:Ea; [|discriminate]. cbn. intros H. injection H as <-.
    apply all_some_map in Ea.
    assert (Hgen : exists nums, Forall2 (fun w n => word_number dp w = Some n /\ plain_text n) ws nums /\
      ts = map (fun wn => w_label (fst wn) ++ snd wn) (combine ws nums) /\ Forall (fun t => ~ In SPC t) ts /\
      Forall (fun wn => span_letters (w_label (fst wn) ++ snd wn) = (w_label (fst wn), snd wn)) (combine ws nums)).
    { clear Hc Hcs Hnz. revert Hw. induction Ea as [|w t ws' ts' Hwt _ IH]; intros Hw.
      - exists []. repeat split; constructor.
      - inversion Hw as [|? ? Hw1 Hw2]; subst. destruct (IH Hw2) as (nums & A & B & C & D).
        destruct (word_text_spec dp w t Hw1 Hwt) as (n & E1 & E2 & E3 & E4 & E5).
        exists (n :: nums). cbn [combine map fst snd]. subst t. repeat split.
        + constructor; [split; assumption|exact A].
        + now rewrite B.
        + constructor; assumption.
        + constructor; [exact E5|exact D]. }
    destruct Hgen as (nums & A & B & C & D). exists nums. split; [exact A|]. split; [|exact D].
    rewrite <- B. rewrite split_token_sp by exact Hcs. f_equal. apply split_join; [|exact C].
    intros ->. inversion Ea; subst. now apply Hnz.
Qed.
