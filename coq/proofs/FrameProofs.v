(* C15: the wire format round trip: the firmware reads back (k, command, checksum ok) from every frame the sender builds. *)
From Coq Require Import ZArith NArith Bool List Lia.
From GS Require Import model.Sender.
Import ListNotations.
Open Scope N_scope.

Definition dval (l : list N) : N := val_digits 0 l.

Lemma val_digits_acc : forall l a, val_digits a l = a * 10 ^ N.of_nat (length l) + dval l.
Proof.
  unfold dval. induction l as [|c l IH]; intros a; cbn [val_digits length].
  - cbn. lia.
  - rewrite IH. rewrite (IH (0 * 10 + (c - 48))). rewrite Nat2N.inj_succ, N.pow_succ_r'. lia.
Qed.

Lemma dval_cons c l : dval (c :: l) = (c - 48) * 10 ^ N.of_nat (length l) + dval l.
Proof. unfold dval at 1. cbn [val_digits]. rewrite val_digits_acc. lia. Qed.

Lemma is_digit_of n : n < 10 -> is_digit (48 + n) = true.
Proof. intros H. unfold is_digit. apply andb_true_iff. split; apply N.leb_le; lia. Qed.

Lemma dec_digits_spec : forall fuel n acc, n < 2 ^ N.of_nat fuel -> forallb is_digit acc = true ->
  forallb is_digit (dec_digits fuel n acc) = true /\
  dval (dec_digits fuel n acc) = n * 10 ^ N.of_nat (length acc) + dval acc /\
  (fuel <> 0%nat -> dec_digits fuel n acc <> []).
Proof.
  induction fuel as [|f IH]; intros n acc Hn Hacc.
  - cbn in Hn. assert (n = 0) by lia. subst n. cbn [dec_digits]. split; [exact Hacc|]. split; [lia|]. intros H; congruence.
  - cbn [dec_digits]. assert (Hm : n mod 10 < 10) by (apply N.mod_lt; lia).
    destruct (n <? 10) eqn:E.
    + apply N.ltb_lt in E. rewrite N.mod_small by lia. repeat split.
      * cbn [forallb]. rewrite is_digit_of by lia. exact Hacc.
      * rewrite dval_cons. lia.
      * discriminate.
    + apply N.ltb_ge in E.
      assert (Hdiv : n / 10 < 2 ^ N.of_nat f).
      { rewrite Nat2N.inj_succ, N.pow_succ_r' in Hn. apply N.div_lt_upper_bound; lia. }
      destruct (IH (n / 10) ((48 + n mod 10) :: acc) Hdiv) as (A & B & C).
      { cbn [forallb]. rewrite is_digit_of by lia. exact Hacc. }
      repeat split; [exact A| |].
      * rewrite B, dval_cons. cbn [length]. rewrite Nat2N.inj_succ, N.pow_succ_r'.
        assert (H10 : 10 <> 0) by discriminate. pose proof (N.div_mod n 10 H10) as Hd. set (m := n mod 10) in *. set (q := n / 10) in *.
        assert (E48 : 48 + m - 48 = m) by lia. rewrite E48.
        set (p := 10 ^ N.of_nat (length acc)). nia.
      * intros _. destruct f as [|f'].
        -- cbn in Hdiv. lia.
        -- apply C. discriminate.
Qed.

Lemma dec_N_spec n : forallb is_digit (dec_N n) = true /\ dval (dec_N n) = n /\ dec_N n <> [].
Proof.
  unfold dec_N. assert (Hlt : n < 2 ^ N.of_nat (S (N.to_nat (N.log2 n)))).
  { rewrite Nat2N.inj_succ, N2Nat.id. destruct (N.eq_dec n 0) as [->|Hz]; [cbn; lia|]. apply N.log2_spec. lia. }
  destruct (dec_digits_spec _ n [] Hlt eq_refl) as (A & B & C). repeat split; [exact A| |apply C; discriminate].
  rewrite B. cbn. lia.
Qed.

Lemma parse_dec_N n : parse_N (dec_N n) = Some n.
Proof.
  destruct (dec_N_spec n) as (A & B & C). unfold parse_N. destruct (dec_N n) as [|c l] eqn:E; [congruence|].
  rewrite A. f_equal. exact B.
Qed.

Lemma digit_not c x : is_digit x = true -> (c < 48 \/ 57 < c) -> x <> c.
Proof. unfold is_digit. intros H Hc ->. apply andb_true_iff in H as [H1 H2]. apply N.leb_le in H1, H2. lia. Qed.

Lemma parse_dec_Z k : parse_Z (dec_Z k) = Some k.
Proof.
  unfold dec_Z, parse_Z. destruct (k <? 0)%Z eqn:E.
  - apply Z.ltb_lt in E. rewrite parse_dec_N. cbn. f_equal. lia.
  - apply Z.ltb_ge in E. destruct (dec_N_spec (Z.to_N k)) as (A & _ & C).
    pose proof (parse_dec_N (Z.to_N k)) as P.
    destruct (dec_N (Z.to_N k)) as [|c l] eqn:D; [congruence|].
    cbn [forallb] in A. apply andb_true_iff in A as [Ac _].
    assert (c <> 45) by (apply (digit_not 45 c Ac); lia).
    destruct c as [|p]; [rewrite P; cbn; f_equal; lia|].
    destruct (N.eq_dec (N.pos p) 45) as [Eq|Ne]; [contradiction|].
    assert (Hgoal : match N.pos p :: l with 45 :: r => option_map (fun n => (- Z.of_N n)%Z) (parse_N r) | _ => option_map Z.of_N (parse_N (N.pos p :: l)) end
                    = option_map Z.of_N (parse_N (N.pos p :: l))).
    { destruct p as [p|p|]; try reflexivity; repeat (destruct p as [p|p|]; try reflexivity); exfalso; apply Ne; reflexivity. }
    rewrite Hgoal, P. cbn. f_equal. lia.
Qed.

Lemma split_last_app c : forall a b, ~ In c b -> split_last c (a ++ c :: b) = Some (a, b).
Proof.
  intros a b Hb. assert (Hnone : split_last c b = None).
  { induction b as [|x b IH]; [reflexivity|]. cbn [split_last]. rewrite IH by (intros H; apply Hb; right; exact H).
    destruct (x =? c) eqn:E; [apply N.eqb_eq in E; subst; exfalso; apply Hb; left; reflexivity|reflexivity]. }
  induction a as [|x a IH]; cbn [app split_last].
  - rewrite Hnone, N.eqb_refl. reflexivity.
  - rewrite IH. reflexivity.
Qed.

Lemma split_first_app c : forall a b, ~ In c a -> split_first c (a ++ c :: b) = Some (a, b).
Proof.
  induction a as [|x a IH]; intros b Ha; cbn [app split_first].
  - rewrite N.eqb_refl. reflexivity.
  - destruct (x =? c) eqn:E; [apply N.eqb_eq in E; subst; exfalso; apply Ha; left; reflexivity|].
    rewrite IH by (intros H; apply Ha; right; exact H). reflexivity.
Qed.

Lemma digits_no c l : forallb is_digit l = true -> (c < 48 \/ 57 < c) -> ~ In c l.
Proof.
  intros H Hc Hin. rewrite forallb_forall in H. specialize (H c Hin). exact (digit_not c c H Hc eq_refl).
Qed.

(* ROUND TRIP: for every line number (the reset's -1 included) and every command text whatsoever, the firmware reads
   back exactly that number and that command from the frame, and the checksum test succeeds *)
Theorem frame_roundtrip (k : Z) (cmd : list N) : fw_parse (frame_bytes k cmd) = Some (k, cmd, true).
Proof.
  unfold fw_parse, frame_bytes. set (prefix := 78 :: dec_Z k ++ 32 :: cmd).
  destruct (dec_N_spec (checksum prefix)) as (A & _ & _).
  rewrite split_last_app by (apply digits_no; [exact A|lia]).
  unfold prefix at 1. 
  assert (Hsp : ~ In 32 (dec_Z k)).
  { unfold dec_Z. destruct (k <? 0)%Z.
    - intros [H|H]; [discriminate|]. destruct (dec_N_spec (Z.to_N (- k))) as (A' & _ & _). revert H. apply digits_no; [exact A'|lia].
    - destruct (dec_N_spec (Z.to_N k)) as (A' & _ & _). apply digits_no; [exact A'|lia]. }
  rewrite (split_first_app 32 (dec_Z k) cmd Hsp). rewrite parse_dec_Z, parse_dec_N. rewrite N.eqb_refl. reflexivity.
Qed.

