(* C12: how travelled (arc) length, chord and chord error are related on a circle of radius r. *)
From Coq Require Import Reals Lra Psatz.
Open Scope R_scope.
Lemma inr_fact n z : Z.of_nat (fact n) = z -> INR (fact n) = IZR z.
Proof. intros <-. apply INR_IZR_INZ. Qed.
Lemma sin_lb_poly a : sin_lb a = a - a ^ 3 / 6 + a ^ 5 / 120 - a ^ 7 / 5040.
Proof.
  unfold sin_lb, sin_approx, sin_term. cbn [sum_f_R0 Nat.mul Nat.add].
  rewrite (inr_fact 1 1 eq_refl), (inr_fact 3 6 eq_refl), (inr_fact 5 120 eq_refl), (inr_fact 7 5040 eq_refl). field.
Qed.
Lemma cos_lb_poly a : cos_lb a = 1 - a ^ 2 / 2 + a ^ 4 / 24 - a ^ 6 / 720.
Proof.
  unfold cos_lb, cos_approx, cos_term. cbn [sum_f_R0 Nat.mul Nat.add].
  rewrite (inr_fact 0 1 eq_refl), (inr_fact 2 2 eq_refl), (inr_fact 4 24 eq_refl), (inr_fact 6 720 eq_refl). field.
Qed.
Lemma sin_ge_cubic a : 0 <= a <= 1 -> a - a ^ 3 / 6 <= sin a.
Proof.
  intros [H0 H1]. pose proof PI2_3_2 as Hpi.
  assert (Hp : a <= PI) by lra. destruct (SIN a H0 Hp) as [Hlb _]. rewrite sin_lb_poly in Hlb.
  assert (H5 : 0 <= a ^ 5) by (apply pow_le; lra).
  assert (Haa : a * a <= 1) by nra.
  assert (a ^ 7 <= a ^ 5). { replace (a ^ 7) with (a ^ 5 * (a * a)) by ring. set (t := a ^ 5) in *. nra. }
  lra.
Qed.
Lemma cos_ge_quadratic a : 0 <= a <= 1 -> 1 - a ^ 2 / 2 <= cos a.
Proof.
  intros [H0 H1]. pose proof PI2_3_2 as Hpi.
  assert (Hp1 : - PI / 2 <= a) by lra. assert (Hp2 : a <= PI / 2) by lra. destruct (COS a Hp1 Hp2) as [Hlb _]. rewrite cos_lb_poly in Hlb.
  assert (H4 : 0 <= a ^ 4) by (apply pow_le; lra).
  assert (Haa : a * a <= 1) by nra.
  assert (a ^ 6 <= a ^ 4). { replace (a ^ 6) with (a ^ 4 * (a * a)) by ring. set (t := a ^ 4) in *. nra. }
  lra.
Qed.

(* a segment that spans arc length s on a circle of radius r (s <= 2 r, i.e. less than about a third of a turn) has chord
   2 r sin (s / 2r), which is at most s and at least s (1 - s^2 / (24 r^2)) *)
Theorem chord_bounds r s : 0 < r -> 0 <= s <= 2 * r ->
  s * (1 - s ^ 2 / (24 * r ^ 2)) <= 2 * r * sin (s / (2 * r)) <= s.
Proof.
  intros Hr [Hs0 Hs1]. set (a := s / (2 * r)).
  assert (Ha : 0 <= a <= 1).
  { unfold a. split; [apply Rmult_le_pos; [lra|left; apply Rinv_0_lt_compat; lra]|].
    apply Rmult_le_reg_r with (2 * r); [lra|]. unfold Rdiv. rewrite Rmult_assoc, Rinv_l by lra. lra. }
  assert (Hs : s = 2 * r * a) by (unfold a; field; lra).
  split.
  - pose proof (sin_ge_cubic a Ha) as H.
    assert (E : s * (1 - s ^ 2 / (24 * r ^ 2)) = 2 * r * (a - a ^ 3 / 6)) by (rewrite Hs; field; lra).
    rewrite E. apply Rmult_le_compat_l; [lra|exact H].
  - destruct (Req_dec a 0) as [Ez|Nz].
    + rewrite Ez, sin_0. lra.
    + assert (sin a < a) by (apply sin_lt_x; lra). assert (2 * r * sin a <= 2 * r * a) by (apply Rmult_le_compat_l; lra). lra.
Qed.

(* the chord error (sagitta) of such a segment is at most s^2 / (8 r) *)
Theorem sagitta_bound r s : 0 < r -> 0 <= s <= 2 * r -> r * (1 - cos (s / (2 * r))) <= s ^ 2 / (8 * r).
Proof.
  intros Hr [Hs0 Hs1]. set (a := s / (2 * r)).
  assert (Ha : 0 <= a <= 1).
  { unfold a. split; [apply Rmult_le_pos; [lra|left; apply Rinv_0_lt_compat; lra]|].
    apply Rmult_le_reg_r with (2 * r); [lra|]. unfold Rdiv. rewrite Rmult_assoc, Rinv_l by lra. lra. }
  pose proof (cos_ge_quadratic a Ha) as H.
  assert (E : s ^ 2 / (8 * r) = r * (a ^ 2 / 2)) by (unfold a; field; lra).
  rewrite E. apply Rmult_le_compat_l; lra.
Qed.
