(* C11: the same logical toolpath in absolute and in relative distance mode. *)
From Coq Require Import ZArith QArith Bool List String Lia Lqa.
From GS Require Import model.Num model.Builder proofs.NumProofs proofs.TrackProofs proofs.HooksProofs.
Import ListNotations.
Open Scope Q_scope.

(* two states that differ only in the distance mode *)
Definition same_but_mode (sa sr : st) : Prop := dm sa = Absolute /\ dm sr = Relative /\ pos sr = pos sa /\ tf sr = tf sa.

(* a request expressed as offsets from the tracked position *)
Definition as_offset (b a r : option Q) : Prop :=
  match a with
  | Some v => exists d, r = Some d /\ d == v - res1 b
  | None => r = None
  end.

(* normalisation yields the same absolute target in both modes: p + (t - p) = t *)
Theorem same_target sa sr pa pr : same_but_mode sa sr ->
  as_offset (px (pos sa)) (px pa) (px pr) -> as_offset (py (pos sa)) (py pa) (py pr) ->
  as_offset (pz (pos sa)) (pz pa) (pz pr) ->
  peq (to_absolute sr pr) (to_absolute sa pa).
Proof.
  intros (Ha & Hr & Hp & _) Hx Hy Hz.
  destruct (to_absolute_axis sa pa) as (Ax & Ay & Az). destruct (to_absolute_axis sr pr) as (Rx & Ry & Rz).
  unfold peq. rewrite Ax, Ay, Az, Rx, Ry, Rz, Ha, Hr, Hp. unfold as_offset in *.
  repeat split;
    [destruct (px pa) as [v|]; [destruct Hx as (d & -> & Ed)|rewrite Hx]
    |destruct (py pa) as [v|]; [destruct Hy as (d & -> & Ed)|rewrite Hy]
    |destruct (pz pa) as [v|]; [destruct Hz as (d & -> & Ed)|rewrite Hz]]; cbn [res1]; try rewrite Ed; ring.
Qed.

(* the centre of an arc / helix is relative to the current position in both modes, the origin is the
   current position: together with [same_target] every shape function receives the same absolute
   arguments, whatever the shape *)
Theorem same_origin sa sr : same_but_mode sa sr -> resolve (pos sr) = resolve (pos sa).
Proof. intros (_ & _ & -> & _). reflexivity. Qed.

(* emission: converting an absolute vertex to the current distance mode and moving there reaches the
   vertex in either mode (no transform active) *)
Theorem vertex_reached s v : tf s = aff_id ->
  let '(mv, tg) := transform_move s (to_distance_mode s v) in peq tg (resolve v).
Proof.
  intros Htf. pose proof (transform_move_id s (to_distance_mode s v) Htf) as H.
  destruct (transform_move s (to_distance_mode s v)) as [mv tg]. cbn zeta in H. destruct H as (Hx & Hy & Hz).
  unfold to_distance_mode, axis_spec in *. unfold peq.
  destruct (dm s); cbn [px py pz psub resolve lift2 res1] in *;
    destruct Hx as (_ & (tx & -> & Ex)); destruct Hy as (_ & (ty & -> & Ey)); destruct Hz as (_ & (tz & -> & Ez));
    cbn [res1]; rewrite Ex, Ey, Ez, ?qsub_eq; repeat split; ring.
Qed.
