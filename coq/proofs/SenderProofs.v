(* C15: numbering, safety for every corruption pattern and interleaving, completeness on a clean link,
   checksum detection, and the two refuted completeness statements (known findings). *)
From Coq Require Import ZArith NArith Bool List Lia.
From GS Require Import model.Sender.
Import ListNotations.
Open Scope Z_scope.

(* ---------------- checksum ---------------- *)
Lemma checksum_app a b : checksum (a ++ b) = N.lxor (checksum a) (checksum b).
Proof. induction a as [|x a IH]; cbn [app checksum fold_right]; [now rewrite N.lxor_0_l|]. fold (checksum (a ++ b)). fold (checksum a). rewrite IH, N.lxor_assoc. reflexivity. Qed.

(* replacing any single byte of the numbered prefix by a different one changes the checksum *)
Theorem xor_detects_single pre b b' post : b <> b' -> checksum (pre ++ b :: post) <> checksum (pre ++ b' :: post).
Proof.
  intros Hne E. rewrite !checksum_app in E. cbn [checksum fold_right] in E. fold (checksum post) in E.
  apply (f_equal (N.lxor (checksum pre))) in E. rewrite <- !N.lxor_assoc, N.lxor_nilpotent, !N.lxor_0_l in E.
  apply (f_equal (fun x => N.lxor x (checksum post))) in E.
  rewrite !N.lxor_assoc, N.lxor_nilpotent, !N.lxor_0_r in E. contradiction.
Qed.

Section Proofs.
  Variable C : Type.
  Notation cmds_of := (cmds_of C).
  Notation sys := (sys C).

  Definition Kq (job : list (option C)) (q : nat) : nat := length (cmds_of (firstn q job)).

  Lemma cmds_of_app a b : cmds_of (a ++ b) = cmds_of a ++ cmds_of b.
  Proof. unfold Sender.cmds_of. apply flat_map_app. Qed.

  Lemma firstn_S_nth {A} (l : list A) q x : nth_error l q = Some x -> firstn (S q) l = firstn q l ++ [x].
  Proof. revert q; induction l as [|y l IH]; intros [|q] H; cbn in *; try discriminate; [congruence|]. f_equal. apply IH. exact H. Qed.

  Lemma nth_split_cmds job q : forall o, nth_error job q = Some o ->
    exists rest, cmds_of job = cmds_of (firstn q job) ++ cmds_of [o] ++ rest.
  Proof.
    intros o H. destruct (nth_error_split job q H) as (l1 & l2 & -> & Hl).
    exists (cmds_of l2). rewrite firstn_app, Hl, Nat.sub_diag, firstn_all2 by lia. cbn [firstn]. rewrite app_nil_r.
    change (l1 ++ o :: l2) with (l1 ++ [o] ++ l2). rewrite !cmds_of_app. reflexivity.
  Qed.

  Lemma Kq_some job q c : nth_error job q = Some (Some c) ->
    nth_error (cmds_of job) (Kq job q) = Some c /\ Kq job (S q) = S (Kq job q).
  Proof.
    intros H. split.
    - destruct (nth_split_cmds job q _ H) as (rest & ->). unfold Kq. rewrite nth_error_app2 by lia. rewrite Nat.sub_diag. reflexivity.
    - unfold Kq. rewrite (firstn_S_nth _ _ _ H), cmds_of_app, app_length. cbn. lia.
  Qed.
  Lemma Kq_none job q : nth_error job q = Some None -> Kq job (S q) = Kq job q.
  Proof. intros H. unfold Kq. rewrite (firstn_S_nth _ _ _ H), cmds_of_app, app_length. cbn. lia. Qed.
  Lemma Kq_end job q : nth_error job q = None -> Kq job q = length (cmds_of job).
  Proof. intros H. apply nth_error_None in H. unfold Kq. rewrite firstn_all2 by exact H. reflexivity. Qed.

  (* ---------------- the safety invariant ---------------- *)
  Definition good_frame (cmds : list C) (f : frame C) : Prop :=
    fgood C f = true -> match fpay C f with PJob n c => 0 <= n /\ nth_error cmds (Z.to_nat n) = Some c | PReset => True end.
  Definition is_reset (f : frame C) : bool := match fpay C f with PReset => true | _ => false end.

  Definition no_reset (l : list (frame C)) : bool := forallb (fun f => negb (is_reset f)) l.

  Definition slice (cmds : list C) (lo : Z) (n : nat) : list C := firstn n (skipn (Z.to_nat lo) cmds).

  Record Inv (job : list (option C)) (g : bool) (s : sys) : Prop := {
    i_lineno : printing C (snd_ C s) = true -> lineno C (snd_ C s) = Z.of_nat (Kq job (qi C (snd_ C s)));
    i_sentl : forall k c, lookup C k (sentl C (snd_ C s)) = Some c -> 0 <= k /\ nth_error (cmds_of job) (Z.to_nat k) = Some c;
    i_frames : Forall (good_frame (cmds_of job)) (to_fw C s);
    i_exp : 0 <= expected C (fw C s);
    i_slice : accepted C (fw C s) =
              slice (cmds_of job) (expected C (fw C s) - Z.of_nat (length (accepted C (fw C s)))) (length (accepted C (fw C s)))
              /\ Z.of_nat (length (accepted C (fw C s))) <= expected C (fw C s);
    i_reset : (exists rest, to_fw C s = {| fpay := PReset; fgood := g |} :: rest /\ no_reset rest = true /\ accepted C (fw C s) = [])
              \/ (no_reset (to_fw C s) = true /\ (g = true -> expected C (fw C s) = Z.of_nat (length (accepted C (fw C s)))))
  }.

  Lemma inv_init job boot g : 0 <= boot -> Inv job g (init C boot g).
  Proof.
    intros Hb. constructor; cbn.
    - intros _. reflexivity.
    - intros k c H. discriminate.
    - constructor; [|constructor]. intros Hg. cbn. exact I.
    - exact Hb.
    - split; [reflexivity|lia].
    - left. exists []. repeat split.
  Qed.

  Lemma nth_error_skipn' {A} (l : list A) : forall k n, nth_error (skipn k l) n = nth_error l (k + n).
  Proof. induction l as [|x l IH]; intros [|k] n; cbn; try reflexivity; [destruct n; reflexivity|apply IH]. Qed.

  Lemma slice_snoc cmds lo n c : 0 <= lo -> nth_error cmds (Z.to_nat lo + n) = Some c ->
    slice cmds lo n ++ [c] = slice cmds lo (S n).
  Proof.
    intros Hlo H. unfold slice. set (l := skipn (Z.to_nat lo) cmds).
    assert (Hn : nth_error l n = Some c) by (unfold l; rewrite nth_error_skipn'; exact H).
    clearbody l. clear H. revert l Hn. induction n as [|n IH]; intros [|x l] Hn; cbn in *; try discriminate.
    - congruence.
    - f_equal. apply IH. exact Hn.
  Qed.

  Lemma no_reset_app a b : no_reset (a ++ b) = no_reset a && no_reset b.
  Proof. unfold no_reset. apply forallb_app. Qed.

  Local Arguments Kq : simpl never.
  Local Arguments Sender.cmds_of : simpl never.
  Local Arguments slice : simpl never.

  Lemma inv_step job g l s s' : Inv job g s -> step C job l s = Some s' -> Inv job g s'.
  Proof.
    intros [Hln Hsl Hfr Hex Hslc Hrs] Hstep. destruct s as [sd f tf th]. destruct sd as [ln rf q cl pr sl]. cbn in *.
    destruct l as [good| |]; cbn in Hstep.
    - (* the print thread: one _sendnext *)
      destruct (cl && pr) eqn:Hen; [|discriminate]. apply andb_true_iff in Hen as [-> ->]. specialize (Hln eq_refl).
      unfold sendnext in Hstep. cbn in Hstep.
      destruct ((rf <? ln) && (-1 <? rf)) eqn:Hr.
      + destruct (lookup C rf sl) as [c|] eqn:Hl; [|discriminate]. injection Hstep as <-.
        destruct (Hsl rf c Hl) as [H0 Hn].
        constructor; cbn; auto.
        * apply Forall_app. split; [exact Hfr|]. constructor; [|constructor]. intros _. cbn. split; assumption.
        * destruct Hrs as [(rest & -> & Hnr & Ha)|[Hnr Hg]].
          -- left. exists (rest ++ [{| fpay := PJob rf c; fgood := good |}]). (split; [reflexivity|split; [|exact Ha]]); unfold no_reset in *; rewrite forallb_app, Hnr; reflexivity.
          -- right. split; [|exact Hg]. unfold no_reset in *; rewrite forallb_app, Hnr; reflexivity.
      + destruct (nth_error job q) as [[c|]|] eqn:Hq; injection Hstep as <-.
        * destruct (Kq_some job q c Hq) as [Hn HK].
          constructor; cbn.
          -- intros _. rewrite HK, Hln. lia.
          -- intros k c0. destruct (k =? ln) eqn:Ek.
             ++ apply Z.eqb_eq in Ek. subst k. intros E. injection E as <-. split; [lia|]. rewrite Hln, Nat2Z.id. exact Hn.
             ++ apply Hsl.
          -- apply Forall_app. split; [exact Hfr|]. constructor; [|constructor]. intros _. cbn. split; [lia|]. rewrite Hln, Nat2Z.id. exact Hn.
          -- exact Hex.
          -- exact Hslc.
          -- destruct Hrs as [(rest & -> & Hnr & Ha)|[Hnr Hg]].
             ++ left. exists (rest ++ [{| fpay := PJob ln c; fgood := good |}]). (split; [reflexivity|split; [|exact Ha]]); unfold no_reset in *; rewrite forallb_app, Hnr; reflexivity.
             ++ right. split; [|exact Hg]. unfold no_reset in *; rewrite forallb_app, Hnr; reflexivity.
        * constructor; cbn; auto; try (intros _; rewrite (Kq_none job q Hq); exact Hln).
        * constructor; cbn; auto; try (intros E; discriminate).
    - (* the firmware reacts to the oldest frame on the wire *)
      destruct tf as [|fr rest]; [discriminate|]. destruct (fw_react C f fr) as [f' rs] eqn:Hre. injection Hstep as <-.
      inversion Hfr as [|? ? Hgf Hfr']; subst. unfold fw_react in Hre. destruct fr as [pay gd]. cbn in *.
      destruct gd; cbn in Hre.
      + destruct pay as [n c|].
        * destruct Hrs as [(rest0 & E & Hnr & Ha)|[Hnr Hg]]; [discriminate E|].
          cbn in Hnr. destruct (n =? expected C f) eqn:En; injection Hre as <- <-.
          -- apply Z.eqb_eq in En. subst n. destruct (Hgf eq_refl) as [H0 Hn]. destruct Hslc as [Hs Hle].
             constructor; cbn; auto; try lia.
             ++ rewrite app_length. cbn [length]. split; [|lia].
                replace (expected C f + 1 - Z.of_nat (length (accepted C f) + 1)) with (expected C f - Z.of_nat (length (accepted C f))) by lia.
                rewrite Nat.add_1_r. rewrite <- slice_snoc with (c := c); [rewrite <- Hs; reflexivity|lia|].
                replace (Z.to_nat (expected C f - Z.of_nat (length (accepted C f))) + length (accepted C f))%nat with (Z.to_nat (expected C f)) by lia.
                exact Hn.
             ++ right. split; [exact Hnr|]. intros Eg. rewrite app_length. cbn. rewrite (Hg Eg). lia.
          -- constructor; cbn; auto; try (right; split; [exact Hnr|exact Hg]).
        * (* the reset frame, uncorrupted *)
          injection Hre as <- <-. destruct Hrs as [(rest0 & E & Hnr & Ha)|[Hnr Hg]].
          -- injection E as <- <-. constructor; cbn; auto; try lia.
             ++ rewrite Ha. cbn. split; [reflexivity|lia].
             ++ right. split; [exact Hnr|]. intros _. rewrite Ha. reflexivity.
          -- cbn in Hnr. discriminate.
      + (* corrupted: rejected *)
        injection Hre as <- <-. constructor; cbn; auto.
        destruct Hrs as [(rest0 & E & Hnr & Ha)|[Hnr Hg]].
        * injection E as _ <- <-. right. split; [exact Hnr|]. intros Eg. discriminate.
        * cbn in Hnr. apply andb_true_iff in Hnr as [_ Hnr]. right. split; [exact Hnr|exact Hg].
    - (* the read thread handles one reply *)
      destruct th as [|r rest]; [discriminate|]. injection Hstep as <-.
      destruct r; constructor; cbn; auto.
  Qed.

  Lemma inv_run job g : forall ls s s', Inv job g s -> run C job ls s = Some s' -> Inv job g s'.
  Proof.
    induction ls as [|l ls IH]; intros s s' Hi Hr; cbn in Hr; [injection Hr as <-; exact Hi|].
    destruct (step C job l s) as [s1|] eqn:E; [|discriminate]. eapply IH; [eapply inv_step; eauto|exact Hr].
  Qed.

  (* SAFETY, for every job, every corruption pattern (the good/bad flag of each transmission is arbitrary, including the
     reset and repeated corruption of resent lines) and every interleaving of print thread, firmware and read thread:
     what the firmware has accepted is always a contiguous, in-order, duplicate-free slice of the job's commands;
     if the reset transmission itself was not corrupted it is a prefix (it starts with the first command) *)
  Theorem safety job boot g ls s : 0 <= boot -> run C job ls (init C boot g) = Some s ->
    exists lo, 0 <= lo /\ accepted C (fw C s) = slice (cmds_of job) lo (length (accepted C (fw C s))) /\
      (g = true -> to_fw C s = [] -> lo = 0).
  Proof.
    intros Hb Hr. pose proof (inv_run job g ls _ _ (inv_init job boot g Hb) Hr) as [_ _ _ Hex [Hs Hle] Hrs].
    exists (expected C (fw C s) - Z.of_nat (length (accepted C (fw C s)))). split; [lia|]. split; [exact Hs|].
    intros Eg Hempty. destruct Hrs as [(rest & E & _)|[_ Hg]]; [rewrite Hempty in E; discriminate|]. rewrite (Hg Eg). lia.
  Qed.

  (* ---------------- completeness on a clean link ---------------- *)
  Fixpoint consec (e K : nat) (frames : list (frame C)) : Prop :=
    match frames with
    | [] => e = K
    | f :: r => fgood C f = true /\ (exists c, fpay C f = PJob (Z.of_nat e) c) /\ consec (S e) K r
    end.

  Lemma consec_snoc K c : forall fr e, consec e K fr -> consec e (S K) (fr ++ [{| fpay := PJob (Z.of_nat K) c; fgood := true |}]).
  Proof.
    induction fr as [|f r IH]; intros e H; cbn in *.
    - subst e. repeat split; eauto.
    - destruct H as (Hg & Hc & Hr). repeat split; auto.
  Qed.

  Definition Kcur (job : list (option C)) (s : sys) : nat :=
    if printing C (snd_ C s) then Kq job (qi C (snd_ C s)) else length (cmds_of job).

  Record CInv (job : list (option C)) (s : sys) : Prop := {
    c_rf : resendfrom C (snd_ C s) = -1;
    c_host : Forall (fun r => r = ROk) (to_host C s);
    c_wire : (exists rest, to_fw C s = {| fpay := PReset; fgood := true |} :: rest /\ consec 0 (Kcur job s) rest)
             \/ (exists e, expected C (fw C s) = Z.of_nat e /\ consec e (Kcur job s) (to_fw C s))
  }.

  Definition clean_label (l : label) : Prop := l <> LSend false.

  Lemma cinv_step job l s s' : clean_label l -> Inv job true s -> CInv job s -> step C job l s = Some s' -> CInv job s'.
  Proof.
    intros Hl [Hln _ _ _ _ _] [Hrf Hh Hw] Hstep. destruct s as [sd f tf th]. destruct sd as [ln rf q cl pr sl]. unfold Kcur in *. cbn in *.
    subst rf. destruct l as [good| |]; cbn in Hstep.
    - destruct good; [|exfalso; apply Hl; reflexivity].
      destruct (cl && pr) eqn:Hen; [|discriminate]. apply andb_true_iff in Hen as [-> ->]. specialize (Hln eq_refl).
      unfold sendnext in Hstep. cbn in Hstep. rewrite andb_false_r in Hstep.
      destruct (nth_error job q) as [[c|]|] eqn:Hq; injection Hstep as <-; constructor; cbn; auto.
      + destruct (Kq_some job q c Hq) as [_ HK]. rewrite HK, Hln.
        destruct Hw as [(rest & -> & Hc)|(e & He & Hc)].
        * left. eexists. split; [reflexivity|]. apply consec_snoc. exact Hc.
        * right. exists e. split; [exact He|]. apply consec_snoc. exact Hc.
      + rewrite (Kq_none job q Hq). exact Hw.
      + rewrite <- (Kq_end job q Hq). exact Hw.
    - destruct tf as [|fr rest]; [discriminate|]. destruct (fw_react C f fr) as [f' rs] eqn:Hre. injection Hstep as <-.
      unfold fw_react in Hre. destruct Hw as [(rest0 & E & Hc)|(e & He & Hc)].
      + injection E as -> ->. cbn in Hre. injection Hre as <- <-. constructor; cbn; auto.
        * apply Forall_app. split; [exact Hh|repeat constructor].
        * right. exists 0%nat. split; [reflexivity|exact Hc].
      + cbn in Hc. destruct Hc as (Hg & (c & Hp) & Hc). destruct fr as [pay gd]. cbn in *. subst gd pay. cbn in Hre.
        rewrite He, Z.eqb_refl in Hre. injection Hre as <- <-. constructor; cbn; auto.
        * apply Forall_app. split; [exact Hh|repeat constructor].
        * right. exists (S e). split; [lia|exact Hc].
    - destruct th as [|r rest]; [discriminate|]. injection Hstep as <-. inversion Hh as [|? ? Hr Hh']; subst.
      constructor; cbn; auto.
  Qed.

  Lemma cinv_init job boot : CInv job (init C boot true).
  Proof. constructor; cbn; auto. left. exists []. split; [reflexivity|]. unfold Kcur. cbn. reflexivity. Qed.

  (* COMPLETENESS when no transmission is corrupted, for every interleaving and every firmware boot state:
     once the print has ended and the wire is drained, the firmware has accepted exactly the job's commands, in order *)
  Theorem complete_clean job boot ls s : 0 <= boot -> Forall clean_label ls ->
    run C job ls (init C boot true) = Some s -> quiescent C s -> accepted C (fw C s) = cmds_of job.
  Proof.
    intros Hb Hls Hr (Hp & Hw & Hh).
    assert (Hboth : Inv job true s /\ CInv job s).
    { clear Hp Hw Hh. revert Hr. generalize (inv_init job boot true Hb) (cinv_init job boot). generalize (init C boot true).
      induction Hls as [|l ls Hl _ IH]; intros s0 Hi Hc Hr; cbn in Hr; [injection Hr as <-; split; assumption|].
      destruct (step C job l s0) as [s1|] eqn:E; [|discriminate].
      apply (IH s1); [eapply inv_step; eauto|eapply cinv_step; eauto|exact Hr]. }
    destruct Hboth as [[_ _ _ _ [Hs Hle] Hrs] [_ _ Hwire]].
    destruct Hwire as [(rest & E & _)|(e & He & Hc)]; [rewrite Hw in E; discriminate|].
    rewrite Hw in Hc. cbn in Hc. unfold Kcur in Hc. rewrite Hp in Hc.
    destruct Hrs as [(rest & E & _)|[_ Hg]]; [rewrite Hw in E; discriminate|]. specialize (Hg eq_refl).
    assert (Hlen : length (accepted C (fw C s)) = length (cmds_of job)) by lia.
    rewrite Hs. rewrite Hg, Z.sub_diag, Hlen. unfold slice. cbn [Z.to_nat skipn]. apply firstn_all.
  Qed.

  (* ---------------- the window: stop-and-wait, plus one for every rejection ---------------- *)
  Definition b2n (b : bool) : nat := if b then 1%nat else 0%nat.
  Definition pot (s : sys) : nat := (b2n (clear C (snd_ C s)) + length (to_fw C s) + length (to_host C s))%nat.
  Definition rejects (s : sys) : bool :=
    match to_fw C s with
    | fr :: _ => match snd (fw_react C (fw C s) fr) with [_; _] => true | _ => false end
    | [] => false
    end.
  Fixpoint run_rej (job : list (option C)) (ls : list label) (s : sys) (rej : nat) : option (sys * nat) :=
    match ls with
    | [] => Some (s, rej)
    | l :: ls' =>
        let rej' := match l with LFw => if rejects s then S rej else rej | _ => rej end in
        match step C job l s with Some s' => run_rej job ls' s' rej' | None => None end
    end.

  Lemma pot_step job l s s' : step C job l s = Some s' ->
    (pot s' <= pot s + match l with LFw => b2n (rejects s) | _ => 0 end)%nat.
  Proof.
    intros H. destruct s as [sd f tf th]. destruct sd as [ln rf q cl pr sl]. unfold pot, rejects. cbn in *.
    destruct l as [good| |]; cbn in H.
    - destruct (cl && pr) eqn:Hen; [|discriminate]. apply andb_true_iff in Hen as [-> ->].
      unfold sendnext in H. cbn in H.
      destruct ((rf <? ln) && (-1 <? rf)).
      + destruct (lookup C rf sl); [|discriminate]. injection H as <-. cbn. rewrite app_length. cbn. lia.
      + destruct (nth_error job q) as [[c|]|]; injection H as <-; cbn; rewrite ?app_length; cbn; lia.
    - destruct tf as [|fr rest]; [discriminate|]. destruct (fw_react C f fr) as [f' rs] eqn:Hre. injection H as <-. cbn.
      rewrite app_length. unfold fw_react in Hre. destruct (negb (fgood C fr)).
      + injection Hre as <- <-. cbn. lia.
      + destruct (fpay C fr) as [n c|].
        * destruct (n =? expected C f); injection Hre as <- <-; cbn; lia.
        * injection Hre as <- <-. cbn. lia.
    - destruct th as [|r rest]; [discriminate|]. injection H as <-. destruct r; cbn; destruct cl; cbn; lia.
  Qed.

  (* WINDOW: whatever the corruption pattern and the interleaving, the number of frames on the wire (indeed: frames on the
     wire + replies on their way + the sender's own clear-to-send flag) never exceeds one plus the number of transmissions
     the firmware has rejected so far.  On a clean link the protocol is stop-and-wait; every rejection (answered by Resend
     AND ok) lets the print thread run one more line ahead -- the mechanism behind the lost tail *)
  Theorem window job boot g ls s rej : run_rej job ls (init C boot g) 0 = Some (s, rej) ->
    (length (to_fw C s) <= pot s /\ pot s <= 1 + rej)%nat.
  Proof.
    intros H. split; [unfold pot; lia|].
    assert (Hgen : forall ls s0 r0 s1 r1, run_rej job ls s0 r0 = Some (s1, r1) -> (pot s0 <= 1 + r0)%nat -> (pot s1 <= 1 + r1)%nat).
    { clear. induction ls as [|l ls IH]; intros s0 r0 s1 r1 H Hp; cbn in H; [injection H as <- <-; exact Hp|].
      destruct (step C job l s0) as [sx|] eqn:E; [|discriminate]. pose proof (pot_step job l s0 sx E) as Hs.
      apply (IH _ _ _ _ H). destruct l; try lia. unfold b2n in Hs. destruct (rejects s0); lia. }
    apply (Hgen ls _ 0%nat _ _ H). cbn. lia.
  Qed.

  (* a resend request for a line already sent makes the next transmission that very line, as stored *)
  Theorem resend_served job s n c good : clear C (snd_ C s) = true -> printing C (snd_ C s) = true ->
    resendfrom C (snd_ C s) = n -> 0 <= n < lineno C (snd_ C s) -> lookup C n (sentl C (snd_ C s)) = Some c ->
    exists s', step C job (LSend good) s = Some s' /\
      to_fw C s' = to_fw C s ++ [{| fpay := PJob n c; fgood := good |}] /\ resendfrom C (snd_ C s') = n + 1.
  Proof.
    intros Hc Hp Hr Hn Hl. destruct s as [sd f tf th]. destruct sd as [ln rf q cl pr sl]. cbn in *. subst cl pr rf.
    unfold step, sendnext. cbn.
    assert (E : (n <? ln) && (-1 <? n) = true) by (apply andb_true_iff; split; apply Z.ltb_lt; lia).
    rewrite E, Hl. eexists. split; [reflexivity|]. cbn. split; reflexivity.
  Qed.
End Proofs.

(* ---------------- the completeness statement is FALSE in general: two witnesses (known findings) ---------------- *)
Definition job3 : list (option nat) := [Some 10%nat; Some 11%nat; Some 12%nat].
Definition tail_sched : list label :=
  [LFw; LRead; LSend true; LFw; LRead; LSend false; LFw; LRead; LSend true; LRead; LSend false; LFw; LRead; LSend true; LFw; LRead; LRead].

(* (b) an earlier rejection leaves a surplus ok; the last line is corrupted; the surplus ok lets the print thread reach
   the end of the queue and stop before the Resend for the last line is read: the last line is never accepted *)
Theorem refuted_tail : exists s, run nat job3 tail_sched (init nat 0 true) = Some s /\
  printing nat (snd_ nat s) = false /\ to_fw nat s = [] /\ to_host nat s = [] /\
  accepted nat (fw nat s) = [10%nat; 11%nat] /\ resendfrom nat (snd_ nat s) = 2.
Proof. eexists. vm_compute. repeat split. Qed.

(* (a) firmware booted expecting N1 (Marlin) and the reset transmission corrupted: job line 0 is never accepted *)
Theorem refuted_m110 : let '(s, ls) := drive nat job3 false [] 200 1 (init nat 1 false) in
  printing nat (snd_ nat s) = false /\ to_fw nat s = [] /\ to_host nat s = [] /\ accepted nat (fw nat s) = [11%nat; 12%nat].
Proof. vm_compute. repeat split. Qed.
