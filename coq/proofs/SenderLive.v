(* C15: with an uncorrupted reset, the ONLY way a streamed job can end incomplete is that a Resend request is read after
   the print thread has stopped -- for every corruption pattern of the job lines and every interleaving. *)
From Coq Require Import ZArith NArith Bool List Lia.
From GS Require Import model.Sender proofs.SenderProofs.
Import ListNotations.
Open Scope Z_scope.

Section Live.
  Variable C : Type.
  Variable job : list (option C).
  Notation sys := (sys C).
  Notation K := (Z.of_nat (length (cmds_of C job))).

  (* the number the print thread transmits next (a stored line while serving a resend request, else the next new line) *)
  Definition nxt (sd : sender C) : Z :=
    if (resendfrom C sd <? lineno C sd) && (-1 <? resendfrom C sd) then resendfrom C sd else lineno C sd.

  Definition is_resend (r : reply) : bool := match r with RResend _ => true | ROk => false end.
  Definition has_resend (th : list reply) : bool := existsb is_resend th.
  Definition resend_le (e : Z) (th : list reply) : Prop := Forall (fun r => match r with RResend m => 0 <= m <= e | ROk => True end) th.

  (* what happens to e when the firmware works through the frames fs: the base claim is made once every frame has been
     accepted; as soon as one is rejected a Resend request is produced, which is a witness by itself *)
  Fixpoint chain (base : Z -> Prop) (e : Z) (fs : list (frame C)) : Prop :=
    match fs with
    | [] => base e
    | f :: fs' =>
        match fpay C f with
        | PJob n _ => if fgood C f && (n =? e) then chain base (e + 1) fs' else True
        | PReset => True
        end
    end.

  Lemma chain_weaken (P Q : Z -> Prop) : (forall e, P e -> Q e) -> forall fs e, chain P e fs -> chain Q e fs.
  Proof.
    intros HPQ. induction fs as [|f fs IH]; intros e H; cbn in *; [apply HPQ; exact H|].
    destruct (fpay C f) as [n c|]; [|exact I]. destruct (fgood C f && (n =? e)); [apply IH; exact H|exact I].
  Qed.

  Lemma chain_up (b : Z) : forall fs e, b <= e -> chain (fun x => b <= x) e fs.
  Proof.
    induction fs as [|f fs IH]; intros e H; cbn; [exact H|].
    destruct (fpay C f) as [n c|]; [|exact I]. destruct (fgood C f && (n =? e)); [apply IH; lia|exact I].
  Qed.

  (* appending the frame the sender transmits next keeps the chain, with the base moved one further *)
  Lemma chain_snoc (x : Z) (c : C) (good : bool) (x' : Z) : x' <= x + 1 ->
    forall fs e, chain (fun v => x <= v) e fs -> chain (fun v => x' <= v) e (fs ++ [{| fpay := PJob x c; fgood := good |}]).
  Proof.
    intros Hx. induction fs as [|f fs IH]; intros e H; cbn in *.
    - destruct (good && (x =? e)) eqn:E; [|exact I]. apply andb_true_iff in E as [_ E]. apply Z.eqb_eq in E. lia.
    - destruct (fpay C f) as [n c0|]; [|exact I]. destruct (fgood C f && (n =? e)); [apply IH; exact H|exact I].
  Qed.

  Record BInv (s : sys) : Prop := {
    b_noreset : no_reset C (to_fw C s) = true;
    b_exp : 0 <= expected C (fw C s);
    b_res : resend_le (expected C (fw C s)) (to_host C s);
    b_print : printing C (snd_ C s) = true ->
              has_resend (to_host C s) = true \/ chain (fun v => nxt (snd_ C s) <= v) (expected C (fw C s)) (to_fw C s);
    b_ended : printing C (snd_ C s) = false ->
              has_resend (to_host C s) = true \/ resendfrom C (snd_ C s) <> -1 \/
              chain (fun v => K <= v) (expected C (fw C s)) (to_fw C s)
  }.

  Definition LInv (boot : Z) (g : bool) (s : sys) : Prop := s = init C boot g \/ BInv s.

  Lemma resend_le_mono e e' th : e <= e' -> resend_le e th -> resend_le e' th.
  Proof. intros He H. eapply Forall_impl; [|exact H]. intros [|m]; cbn; lia. Qed.

  Lemma has_resend_app a b : has_resend (a ++ b) = has_resend a || has_resend b.
  Proof. apply existsb_app. Qed.

  Lemma has_resend_rej th m : has_resend (th ++ [RResend m; ROk]) = true.
  Proof. rewrite has_resend_app. cbn. apply orb_true_r. Qed.
  Lemma has_resend_ok th : has_resend th = true -> has_resend (th ++ [ROk]) = true.
  Proof. intros H. rewrite has_resend_app, H. reflexivity. Qed.

  Local Arguments has_resend : simpl never.
  Local Arguments Kq : simpl never.
  Local Arguments Sender.cmds_of : simpl never.

  Lemma linv_step boot g l s s' : 0 <= boot -> Inv C job g s -> LInv boot g s -> step C job l s = Some s' -> LInv boot g s'.
  Proof.
    intros Hboot HI [->|HB] Hstep.
    - (* the initial state: only the firmware can move (the sender is not clear, nothing to read) *)
      destruct l as [good| |]; cbn in Hstep; try discriminate. destruct g; cbn in Hstep; injection Hstep as <-; right.
      + constructor; cbn; auto; try lia; try (repeat constructor); try (intros _; right; unfold nxt; cbn; lia); try (intros E; discriminate).
      + (* the reset itself was corrupted: it is rejected, and the Resend it produces is the witness *)
        constructor; cbn; auto; try lia; try (intros E; discriminate);
          try (constructor; [cbn; lia|repeat constructor]); try (intros _; left; reflexivity).
    - destruct HI as [Hln _ _ _ _ _]. destruct HB as [Hnr Hex Hres Hpr Hen].
      destruct s as [sd f tf th]. destruct sd as [ln rf q cl pr sl]. cbn in *. right.
      destruct l as [good| |]; cbn in Hstep.
      + (* print thread *)
        destruct (cl && pr) eqn:Hc; [|discriminate]. apply andb_true_iff in Hc as [-> ->]. specialize (Hln eq_refl). specialize (Hpr eq_refl).
        unfold sendnext in Hstep. cbn in Hstep. unfold nxt in Hpr. cbn in Hpr.
        destruct ((rf <? ln) && (-1 <? rf)) eqn:Hr.
        * destruct (lookup C rf sl) as [c|]; [|discriminate]. injection Hstep as <-.
          apply andb_true_iff in Hr as [Hr1 Hr2]. apply Z.ltb_lt in Hr1, Hr2.
          constructor; cbn; auto.
          -- unfold no_reset in *. rewrite forallb_app, Hnr. reflexivity.
          -- intros _. destruct Hpr as [Hh|Hch]; [left; exact Hh|right].
             apply chain_snoc; [|exact Hch]. unfold nxt. cbn. destruct ((rf + 1 <? ln) && (-1 <? rf + 1)) eqn:E2; [lia|].
             apply andb_false_iff in E2 as [E2|E2]; apply Z.ltb_ge in E2; lia.
          -- intros E. discriminate.
        * destruct (nth_error job q) as [[c|]|] eqn:Hq; injection Hstep as <-.
          -- constructor; cbn; auto.
             ++ unfold no_reset in *. rewrite forallb_app, Hnr. reflexivity.
             ++ intros _. destruct Hpr as [Hh|Hch]; [left; exact Hh|right].
                apply chain_snoc; [|exact Hch]. unfold nxt. cbn. rewrite andb_false_r. lia.
             ++ intros E. discriminate.
          -- constructor; cbn; auto.
             ++ intros _. destruct Hpr as [Hh|Hch]; [left; exact Hh|right]. unfold nxt. cbn.
                rewrite andb_false_r. exact Hch.
             ++ intros E. discriminate.
          -- (* end of the queue: the print thread stops *)
             constructor; cbn; auto.
             ++ intros E. discriminate.
             ++ intros _. destruct Hpr as [Hh|Hch]; [left; exact Hh|right; right].
                eapply chain_weaken; [|exact Hch]. cbn. intros e He.
                rewrite Hln, (Kq_end C job q Hq) in He. exact He.
      + (* firmware *)
        destruct tf as [|fr rest]; [discriminate|]. destruct (fw_react C f fr) as [f' rs] eqn:Hre. injection Hstep as <-.
        unfold fw_react in Hre. destruct fr as [pay gd]. cbn in Hnr. apply andb_true_iff in Hnr as [Hp0 Hnr].
        destruct pay as [n c|]; [|cbn in Hp0; discriminate]. cbn in *.
        destruct gd; cbn in Hre.
        * destruct (n =? expected C f) eqn:En.
          -- injection Hre as <- <-. apply Z.eqb_eq in En. subst n. constructor; cbn; auto; try lia.
             ++ apply Forall_app. split; [eapply resend_le_mono; [|exact Hres]; lia|repeat constructor].
             ++ intros Hp. destruct (Hpr Hp) as [Hh|Hch]; [left; apply has_resend_ok; exact Hh|right].
                exact Hch.
             ++ intros Hp. destruct (Hen Hp) as [Hh|[Hrf|Hch]]; [left; apply has_resend_ok; exact Hh|right; left; exact Hrf|right; right].
                exact Hch.
          -- injection Hre as <- <-. constructor; cbn; auto.
             ++ apply Forall_app. split; [exact Hres|]. constructor; [cbn; lia|repeat constructor].
             ++ intros _. left. apply has_resend_rej.
             ++ intros _. left. apply has_resend_rej.
        * injection Hre as <- <-. constructor; cbn; auto.
          -- apply Forall_app. split; [exact Hres|]. constructor; [cbn; lia|repeat constructor].
          -- intros _. left. apply has_resend_rej.
          -- intros _. left. apply has_resend_rej.
      + (* read thread *)
        destruct th as [|r rest]; [discriminate|]. injection Hstep as <-. inversion Hres as [|? ? Hr Hres']; subst.
        destruct r as [|m].
        * constructor; cbn.
          -- exact Hnr.
          -- exact Hex.
          -- exact Hres'.
          -- intros Hp. destruct (Hpr Hp) as [Hh|Hch]; [left; exact Hh|right; exact Hch].
          -- intros Hp. destruct (Hen Hp) as [Hh|[Hrf|Hch]]; [left; exact Hh|right; left; exact Hrf|right; right; exact Hch].
        * (* a Resend request is read: the next transmission is at or before the line the firmware expects *)
          cbn in Hr. constructor; cbn.
          -- exact Hnr.
          -- exact Hex.
          -- exact Hres'.
          -- intros Hp. right. specialize (Hln Hp). apply chain_up. unfold nxt. cbn.
             destruct ((m <? ln) && (-1 <? m)) eqn:E; [lia|].
             apply andb_false_iff in E as [E|E]; apply Z.ltb_ge in E; lia.
          -- intros _. right. left. lia.
  Qed.
  Lemma both_run boot g : 0 <= boot -> forall ls s0 s, Inv C job g s0 -> LInv boot g s0 -> run C job ls s0 = Some s ->
    Inv C job g s /\ LInv boot g s.
  Proof.
    intros Hb. induction ls as [|l ls IH]; intros s0 s Hi Hl H; cbn in H; [injection H as <-; split; assumption|].
    destruct (step C job l s0) as [s1|] eqn:E; [|discriminate].
    apply (IH s1 s); [eapply inv_step; eauto|eapply linv_step; eauto|exact H].
  Qed.

  (* COMPLETENESS, characterised: the reset got through; any corruption pattern of the job lines (repeated corruption of
     resent lines included), any interleaving.  Once the print has ended and the wire is drained, the firmware has accepted
     the whole job exactly once and in order -- unless a Resend request was read after the print thread had stopped
     (resendfrom is then left set).  That late Resend is the ONLY way to lose lines. *)
  Theorem complete_unless_late_resend boot ls s : 0 <= boot -> run C job ls (init C boot true) = Some s ->
    quiescent C s -> resendfrom C (snd_ C s) = -1 -> accepted C (fw C s) = cmds_of C job.
  Proof.
    intros Hb Hr (Hp & Hw & Hh) Hrf.
    destruct (both_run boot true Hb ls _ s (inv_init C job boot true Hb) (or_introl eq_refl) Hr) as [HI [->|HB]].
    - cbn in Hp. discriminate.
    - destruct HB as [_ _ _ _ Hen]. destruct (Hen Hp) as [Hh2|[Hrf2|Hch]].
      + rewrite Hh in Hh2. discriminate.
      + contradiction.
      + rewrite Hw in Hch. cbn in Hch.
        destruct HI as [_ _ _ _ [Hs Hle] Hrs].
        destruct Hrs as [(rest & E & _)|[_ Hg]]; [rewrite Hw in E; discriminate|]. specialize (Hg eq_refl).
        rewrite Hg, Z.sub_diag in Hs. unfold slice in Hs. cbn [Z.to_nat skipn] in Hs.
        assert (Hlen : (length (accepted C (fw C s)) <= length (cmds_of C job))%nat).
        { rewrite Hs at 1. rewrite firstn_length. lia. }
        assert (Heq : length (accepted C (fw C s)) = length (cmds_of C job)) by lia.
        rewrite Hs, Heq. apply firstn_all.
  Qed.
  (* a firmware that boots expecting N0: the number it expects is always the number of commands it has accepted,
     whether or not the reset transmission gets through *)
  Definition E0 (s : sys) : Prop := expected C (fw C s) = Z.of_nat (length (accepted C (fw C s))).

  Lemma e0_step g l s s' : Inv C job g s -> E0 s -> step C job l s = Some s' -> E0 s'.
  Proof.
    intros [_ _ _ _ _ Hrs] He H. unfold E0 in *. destruct s as [sd f tf th]. cbn in *.
    destruct l as [good| |]; cbn in H.
    - destruct (clear C sd && printing C sd); [|discriminate].
      destruct (sendnext C job sd) as [[sd' w]|]; [|discriminate]. destruct w; injection H as <-; exact He.
    - destruct tf as [|fr rest]; [discriminate|]. destruct (fw_react C f fr) as [f' rs] eqn:Hre. injection H as <-. cbn.
      unfold fw_react in Hre. destruct (negb (fgood C fr)) eqn:Hg; [injection Hre as <- <-; exact He|].
      destruct fr as [pay gd]. cbn in *. destruct pay as [n c|].
      + destruct (n =? expected C f); injection Hre as <- <-; cbn; [rewrite app_length; cbn; lia|exact He].
      + injection Hre as <- <-. cbn. destruct Hrs as [(rest0 & E & _ & Ha)|[Hnr _]].
        * rewrite Ha. reflexivity.
        * cbn in Hnr. discriminate.
    - destruct th as [|r rest]; [discriminate|]. injection H as <-. exact He.
  Qed.

  Theorem complete_unless_late_resend_boot0 g ls s : run C job ls (init C 0 g) = Some s ->
    quiescent C s -> resendfrom C (snd_ C s) = -1 -> accepted C (fw C s) = cmds_of C job.
  Proof.
    intros Hr (Hp & Hw & Hh) Hrf.
    assert (Hall : Inv C job g s /\ LInv 0 g s /\ E0 s).
    { revert Hr. generalize (inv_init C job 0 g (Z.le_refl 0)).
      assert (HL0 : LInv 0 g (init C 0 g)) by (left; reflexivity).
      assert (HE0 : E0 (init C 0 g)) by reflexivity. revert HL0 HE0. generalize (init C 0 g).
      induction ls as [|l ls IH]; intros s0 HL HE HI H; cbn in H; [injection H as <-; auto|].
      destruct (step C job l s0) as [s1|] eqn:E; [|discriminate].
      apply (IH s1); [eapply linv_step; eauto; lia|eapply e0_step; eauto|eapply inv_step; eauto|exact H]. }
    destruct Hall as (HI & [->|HB] & HE).
    - cbn in Hp. discriminate.
    - destruct HB as [_ _ _ _ Hen]. destruct (Hen Hp) as [Hh2|[Hrf2|Hch]].
      + rewrite Hh in Hh2. discriminate.
      + contradiction.
      + rewrite Hw in Hch. cbn in Hch. destruct HI as [_ _ _ _ [Hs Hle] _]. unfold E0 in HE.
        rewrite HE, Z.sub_diag in Hs. unfold slice in Hs. cbn [Z.to_nat skipn] in Hs.
        assert (Hlen : (length (accepted C (fw C s)) <= length (cmds_of C job))%nat).
        { rewrite Hs at 1. rewrite firstn_length. lia. }
        assert (Heq : length (accepted C (fw C s)) = length (cmds_of C job)) by lia.
        rewrite Hs, Heq. apply firstn_all.
  Qed.
End Live.
