(* C11 over whole toolpaths: executing a logical toolpath -- absolute waypoints (any subset of axes)
   and interpolated paths given by their absolute vertices -- leaves the builder, after every item,
   at the logical position, whether the builder is in absolute mode (waypoints passed as they are)
   or in relative mode (waypoints passed as offsets from the logical position).  Hence the two
   executions agree item by item; with C01 so do the machines. *)
From Coq Require Import ZArith QArith Bool List String Lia.
From GS Require Import gen.GenTables model.Num model.Builder model.Interp proofs.Tables proofs.FlagsProofs
  proofs.NumProofs proofs.InterlockProofs proofs.AtomicProofs proofs.BoundsProofs proofs.MirrorProofs
  proofs.TrackProofs proofs.HooksProofs proofs.ModeProofs.
Import ListNotations.
Open Scope string_scope.
Open Scope list_scope.

Inductive litem :=
| LMove (k : mkind) (t : point)        (* go to this absolute waypoint; axes not given stay *)
| LPath (pts : list point).            (* an interpolated shape: its absolute vertices *)

(* the logical position after an item *)
Definition lstep (L : point) (i : litem) : point :=
  match i with
  | LMove _ t => replace (resolve L) t
  | LPath pts => fold_left (fun _ v => resolve v) pts (resolve L)
  end.

Definition req_of (p : point) : req :=
  mkreq (option_map Fin (px p)) (option_map Fin (py p)) (option_map Fin (pz p)).
Definition off1 (l t : option Q) : option Q := option_map (fun v => qsub v (res1 l)) t.
Definition offset (L t : point) : point := mkpt (off1 (px L) (px t)) (off1 (py L) (py t)) (off1 (pz L) (pz t)).

(* how the caller phrases the item in each distance mode *)
Definition cmd_for (m : dmode) (L : point) (i : litem) : cmd :=
  match i with
  | LMove k t => Move k (req_of (match m with Absolute => t | Relative => offset L t end)) []
  | LPath pts => Polyline pts []
  end.

Lemma req_point_of p : req_point (req_of p) = p.
Proof. destruct p as [[x|] [y|] [z|]]; reflexivity. Qed.
Lemma req_finite_of p : req_finite (req_of p) = true.
Proof. destruct p as [[x|] [y|] [z|]]; reflexivity. Qed.

(* the configuration in which nothing can be rejected: no transform, no bounds, no hooks *)
Definition plain (m : dmode) (s : st) : Prop := dm s = m /\ tf s = aff_id /\ bnd s = no_bounds /\ hooks s = [].

Lemma do_move_plain dp k s r mv tg m : plain m s -> req_finite r = true ->
  let R := do_move dp k s r mv tg [] in
  err_of R = None /\ pos (st_of R) = tg /\ plain m (st_of R).
Proof.
  intros (Hd & Ht & Hb & Hh) Hf. cbn zeta. unfold do_move. rewrite Hh.
  destruct k; unfold track; cbn [pget]; rewrite Hf; cbn [params_finite forallb andb negb]; unfold update_axes;
    rewrite Hb; cbn [b_axes no_bounds within]; cbn [st_of err_of]; repeat split; cbn; assumption.
Qed.

Definition peq3 (a b : point) : Prop := peq a b.

Lemma move_follows dp m s L k t : plain m s -> peq (pos s) L ->
  let R := step1 dp s (cmd_for m L (LMove k t)) in
  err_of R = None /\ peq (pos (st_of R)) (lstep L (LMove k t)) /\ plain m (st_of R).
Proof.
  intros Hp HL. cbn zeta. cbn [cmd_for step1]. rewrite req_point_of.
  set (p := match m with Absolute => t | Relative => offset L t end).
  unfold transform_move. cbv zeta.
  match goal with |- context [do_move dp k s ?r ?mv ?tg []] =>
    destruct (do_move_plain dp k s r mv tg m Hp (req_finite_of p)) as (A & B & C) end.
  split; [exact A|]. split; [|exact C]. rewrite B.
  destruct Hp as (Hd & _). destruct (to_absolute_axis s p) as (Ax & Ay & Az). destruct HL as (Lx & Ly & Lz).
  unfold peq. rewrite Ax, Ay, Az, Hd. unfold lstep, p. clear Ax Ay Az.
  destruct m; cbn [replace resolve px py pz rep1 res1 offset off1];
    destruct (px t) as [tx|], (py t) as [ty|], (pz t) as [tz|]; unfold off1; cbn [option_map res1 rep1];
    rewrite ?qsub_eq, ?Lx, ?Ly, ?Lz; repeat split; ring.
Qed.

Lemma peq_refl a : peq a a. Proof. unfold peq. repeat split; reflexivity. Qed.
Lemma peq_resolve a b : peq a b -> peq (resolve a) b.
Proof. unfold peq. destruct a as [x y z]. cbn. auto. Qed.
Lemma peq_resolve_r a b : peq a b -> peq a (resolve b).
Proof. unfold peq. destruct b as [x y z]. cbn. auto. Qed.

Lemma poly_follows dp m : forall pts s acc calls L, plain m s -> peq (pos s) L ->
  let R := poly_go dp [] pts s acc calls in
  err_of R = None /\ peq (pos (st_of R)) (fold_left (fun _ v => resolve v) pts (resolve L)) /\ plain m (st_of R).
Proof.
  induction pts as [|v pts IH]; intros s acc calls L Hp HL; cbn zeta; cbn [poly_go fold_left].
  - cbn [err_of st_of]. split; [reflexivity|]. split; [now apply peq_resolve_r|exact Hp].
  - pose proof (vertex_reached s v (proj1 (proj2 Hp))) as Hv.
    destruct (transform_move s (to_distance_mode s v)) as [mv tg].
    match goal with |- context [do_move dp Linear s ?r mv tg []] =>
      assert (Hf : req_finite r = true) by reflexivity;
      destruct (do_move_plain dp Linear s r mv tg m Hp Hf) as (A & B & C);
      destruct (do_move dp Linear s r mv tg []) as [[[s1 ls] cs] e1] end.
    cbn [err_of st_of] in A, B, C. subst e1.
    assert (H1 : peq (pos s1) (resolve v)) by (rewrite B; exact Hv).
    specialize (IH s1 (acc ++ ls) (calls ++ cs) (resolve v) C H1). cbn zeta in IH.
    assert (E : resolve (resolve v) = resolve v) by reflexivity. rewrite E in IH. exact IH.
Qed.

Theorem item_follows dp m s L i : plain m s -> peq (pos s) L ->
  let R := step1 dp s (cmd_for m L i) in
  err_of R = None /\ peq (pos (st_of R)) (lstep L i) /\ plain m (st_of R).
Proof.
  destruct i as [k t|pts]; [apply move_follows|]. intros Hp HL. cbn [cmd_for step1 lstep]. now apply poly_follows.
Qed.

(* the commands of a whole toolpath in mode m, phrased against the logical position as it evolves *)
Fixpoint cmds_for (m : dmode) (L : point) (path : list litem) : list cmd :=
  match path with
  | [] => []
  | i :: path' => cmd_for m L i :: cmds_for m (lstep L i) path'
  end.
Definition lfinal (L : point) (path : list litem) : point := fold_left lstep path L.

Theorem path_follows dp m : forall path s L, plain m s -> peq (pos s) L ->
  peq (pos (final dp s (cmds_for m L path))) (lfinal L path) /\
  Forall (fun r => err_of r = None) (run dp s (cmds_for m L path)) /\
  plain m (final dp s (cmds_for m L path)).
Proof.
  induction path as [|i path IH]; intros s L Hp HL; cbn [cmds_for].
  - cbn. auto.
  - destruct (item_follows dp m s L i Hp HL) as (A & B & C). cbn zeta in *.
    rewrite final_cons. unfold lfinal. cbn [fold_left]. cbn [run].
    destruct (step1 dp s (cmd_for m L i)) as [[[s1 ls] cs] e1] eqn:Es. cbn [st_of err_of] in *.
    destruct (IH s1 (lstep L i) C B) as (A2 & B2 & C2). split; [exact A2|]. split; [|exact C2].
    constructor; [exact A|exact B2].
Qed.

Lemma peq_sym a b : peq a b -> peq b a. Proof. unfold peq. intros (A & B & C). repeat split; symmetry; assumption. Qed.
Lemma peq_trans a b c : peq a b -> peq b c -> peq a c.
Proof. unfold peq. intros (A & B & C) (D & E & F). repeat split; etransitivity; eassumption. Qed.

Lemma firstn_cmds m : forall path L n, firstn n (cmds_for m L path) = cmds_for m L (firstn n path).
Proof.
  induction path as [|i path IH]; intros L n; [now destruct n|]. destruct n; [reflexivity|].
  cbn [firstn cmds_for]. now rewrite IH.
Qed.

(* the same toolpath in the two modes: after EVERY item (every prefix of the path) the two builders
   are at the same position *)
Theorem modes_agree dp path n sa sr L : plain Absolute sa -> plain Relative sr -> peq (pos sa) L -> peq (pos sr) L ->
  peq (pos (final dp sa (firstn n (cmds_for Absolute L path)))) (pos (final dp sr (firstn n (cmds_for Relative L path)))).
Proof.
  intros Ha Hr La Lr. rewrite !firstn_cmds.
  destruct (path_follows dp Absolute (firstn n path) sa L Ha La) as (A & _).
  destruct (path_follows dp Relative (firstn n path) sr L Hr Lr) as (B & _).
  eapply peq_trans; [exact A|]. now apply peq_sym.
Qed.

(* ---- down to the machines (C01): both programs, read by the independent interpreter, put the machine where the
   builder is; the builders agree; so the two machines agree up to the rounding of the emitted words ---- *)
Lemma cmds_for_ok m : forall path L, Forall cmd_ok1 (cmds_for m L path).
Proof.
  induction path as [|i path IH]; intros L; cbn [cmds_for]; constructor; [|apply IH].
  destruct i; cbn; repeat split; constructor.
Qed.

Lemma all_ok_clean dp : forall cs s, Forall (fun r => err_of r = None) (run dp s cs) -> clean_run dp s cs.
Proof.
  induction cs as [|c cs IH]; intros s H; [exact I|]. cbn [clean_run]. cbn [run] in H.
  destruct (step1 dp s c) as [[[s1 ls] calls] e] eqn:Es. inversion H as [|? ? H1 H2]; subst. cbn [st_of err_of] in *.
  split; [left; exact H1|apply IH; exact H2].
Qed.

Definition rel_start : st := st_of (step1 0 init (SetDistance (Member Relative))).

Lemma plain_init : plain Absolute init. Proof. repeat split. Qed.
Lemma plain_rel_start : plain Relative rel_start. Proof. repeat split. Qed.

Theorem machines_agree dp path :
  let ca := cmds_for Absolute zero path in
  let cr := SetDistance (Member Relative) :: cmds_for Relative zero path in
  Agree dp (final dp init ca) (pinterp_lines pmach0 (output dp init ca)) /\
  Agree dp (final dp init cr) (pinterp_lines pmach0 (output dp init cr)) /\
  peq (pos (final dp init ca)) (pos (final dp init cr)) /\
  peq (pos (final dp init ca)) (lfinal zero path).
Proof.
  cbn zeta.
  assert (L0 : peq (pos init) zero) by (unfold peq; cbn; repeat split; reflexivity).
  destruct (path_follows dp Absolute path init zero plain_init L0) as (A1 & A2 & _).
  assert (Hs : st_of (step1 dp init (SetDistance (Member Relative))) = rel_start) by reflexivity.
  assert (L1 : peq (pos rel_start) zero) by (unfold peq; cbn; repeat split; reflexivity).
  destruct (path_follows dp Relative path rel_start zero plain_rel_start L1) as (B1 & B2 & _).
  assert (Hfr : final dp init (SetDistance (Member Relative) :: cmds_for Relative zero path) =
                final dp rel_start (cmds_for Relative zero path)) by (rewrite final_cons, Hs; reflexivity).
  split; [|split; [|split]].
  - apply (history_agree_prefix dp _ []); rewrite app_nil_r; [apply cmds_for_ok|now apply all_ok_clean].
  - apply (history_agree_prefix dp _ []); rewrite app_nil_r.
    + constructor; [cbn; repeat split|apply cmds_for_ok].
    + cbn [clean_run]. split; [left; reflexivity|]. rewrite Hs. now apply all_ok_clean.
  - rewrite Hfr. eapply peq_trans; [exact A1|]. now apply peq_sym.
  - exact A1.
Qed.

(* ---- vertex lists (polyline / spline arguments): to_absolute_list ---- *)
(* the same logical vertices phrased for relative mode: each as the offset from the logical position before it *)
Fixpoint offsets (L : point) (vs : list point) : list point :=
  match vs with
  | [] => []
  | v :: vs' => offset L v :: offsets (replace (resolve L) v) vs'
  end.

Lemma peq_padd_offset c L v : peq c L -> peq (padd c (resolve (offset L v))) (replace (resolve L) v).
Proof.
  intros (Hx & Hy & Hz). unfold peq, padd, offset, off1, replace, resolve, lift2, rep1. cbn [px py pz res1].
  destruct (px v) as [vx|], (py v) as [vy|], (pz v) as [vz|]; cbn [option_map res1]; rewrite ?qadd_eq, ?qsub_eq, ?Hx, ?Hy, ?Hz;
    repeat split; ring.
Qed.

Lemma peq_replace c L v : peq c L -> peq (replace c v) (replace (resolve L) v).
Proof.
  intros (Hx & Hy & Hz). unfold peq, replace, resolve, rep1. cbn [px py pz res1].
  destruct (px v), (py v), (pz v); cbn [res1]; repeat split; try reflexivity; assumption.
Qed.

(* in both modes to_absolute_list yields, vertex by vertex, the logical positions of the path *)
Theorem abs_list_agree : forall vs ca cr L, peq ca L -> peq cr L ->
  Forall2 peq (abs_list true cr (offsets L vs)) (abs_list false ca vs).
Proof.
  induction vs as [|v vs IH]; intros ca cr L Ha Hr; cbn [offsets abs_list]; constructor.
  - eapply peq_trans; [apply (peq_padd_offset cr L v Hr)|]. apply peq_sym. now apply peq_replace.
  - apply (IH _ _ (replace (resolve L) v)); [now apply peq_replace|now apply peq_padd_offset].
Qed.

Corollary to_absolute_list_agree sa sr vs : same_but_mode sa sr ->
  Forall2 peq (to_absolute_list sr (offsets (pos sa) vs)) (to_absolute_list sa vs).
Proof.
  intros (Ha & Hr & Hp & _). unfold to_absolute_list. rewrite Ha, Hr, Hp.
  apply abs_list_agree; unfold peq, resolve; cbn; repeat split; reflexivity.
Qed.
