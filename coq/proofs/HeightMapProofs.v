(* C19: the path filter, the line samplers, the get_depth_at wrappers, barycentric range. *)
From Coq Require Import ZArith QArith Qabs Qround Bool List Lia Lqa.
From GS Require Import model.HeightMap.
Import ListNotations.
Open Scope Q_scope.

Inductive subseq {A : Type} : list A -> list A -> Prop :=
| ss_nil : subseq [] []
| ss_keep x l1 l2 : subseq l1 l2 -> subseq (x :: l1) (x :: l2)
| ss_drop x l1 l2 : subseq l1 l2 -> subseq l1 (x :: l2).

Lemma subseq_refl {A} (l : list A) : subseq l l.
Proof. induction l; constructor; auto. Qed.
Lemma subseq_app {A} (a b c d : list A) : subseq a b -> subseq c d -> subseq (a ++ c) (b ++ d).
Proof. induction 1; intros Hcd; cbn; try constructor; auto. Qed.
Lemma subseq_nil_l {A} (l : list A) : subseq [] l.
Proof. induction l; constructor; auto. Qed.

(* ---------------- the drop rule ---------------- *)
Definition lastz (lz : Q) (kept : list pt3) : Q := match kept with [] => lz | _ => zof (last kept (0, 0, 0)) end.

Lemma fgo_app tol : forall pre lz post,
  fgo tol lz (pre ++ post) = fgo tol lz pre ++ fgo tol (lastz lz (fgo tol lz pre)) post.
Proof.
  induction pre as [|p pre IH]; intros lz post; [reflexivity|]. cbn [app fgo].
  destruct (Qle_bool tol (Qabs (zof p - lz))) eqn:E.
  - cbn [app]. rewrite IH. f_equal. f_equal. f_equal.
    unfold lastz. destruct (fgo tol (zof p) pre) as [|q l] eqn:F; [reflexivity|].
    cbn [last]. destruct l; reflexivity.
  - apply IH.
Qed.

(* a sample is dropped exactly when its height differs from the previously kept one by less than the tolerance,
   and a kept sample becomes the reference for what follows *)
Theorem drop_rule tol lz pre p post :
  let ref := lastz lz (fgo tol lz pre) in
  (Qabs (zof p - ref) < tol -> fgo tol lz (pre ++ p :: post) = fgo tol lz pre ++ fgo tol ref post) /\
  (tol <= Qabs (zof p - ref) -> fgo tol lz (pre ++ p :: post) = fgo tol lz pre ++ p :: fgo tol (zof p) post).
Proof.
  cbn zeta. rewrite fgo_app. cbn [fgo]. split; intros H.
  - destruct (Qle_bool tol (Qabs (zof p - lastz lz (fgo tol lz pre)))) eqn:E; [|reflexivity].
    apply Qle_bool_iff in E. lra.
  - destruct (Qle_bool tol (Qabs (zof p - lastz lz (fgo tol lz pre)))) eqn:E; [reflexivity|].
    assert (Qle_bool tol (Qabs (zof p - lastz lz (fgo tol lz pre))) = true) by (apply Qle_bool_iff; exact H). congruence.
Qed.

Lemma fgo_subseq tol : forall pts lz, subseq (fgo tol lz pts) pts.
Proof. induction pts as [|p ps IH]; intros lz; cbn [fgo]; [constructor|]. destruct (Qle_bool _ _); constructor; apply IH. Qed.

Lemma fgo_first tol p ps : 0 < tol -> fgo tol (zof p) (p :: ps) = fgo tol (zof p) ps.
Proof.
  intros Ht. cbn [fgo]. destruct (Qle_bool tol (Qabs (zof p - zof p))) eqn:E; [|reflexivity].
  apply Qle_bool_iff in E. setoid_replace (zof p - zof p) with 0 in E by ring. cbn in E. lra.
Qed.

Lemma pt_eqb_refl p : pt_eqb p p = true.
Proof. unfold pt_eqb. rewrite !(proj2 (Qeq_bool_iff _ _) (Qeq_refl _)). reflexivity. Qed.

Lemma last_cons_app {A} (x : A) l y d : last (x :: l ++ [y]) d = y.
Proof. rewrite app_comm_cons. apply last_last. Qed.

(* starts at the first sample, ends at the last one, and is an in-order selection of the samples *)
Theorem filter_spec tol pts first : 0 < tol -> hd_error pts = Some first ->
  hd_error (filter_points tol pts) = Some first /\
  pt_eqb (last (filter_points tol pts) first) (last pts first) = true /\
  subseq (filter_points tol pts) pts.
Proof.
  intros Ht Hh. destruct pts as [|f ps]; [discriminate|]. cbn in Hh. injection Hh as ->.
  unfold filter_points. rewrite (fgo_first tol first ps Ht).
  destruct (pt_eqb (last (first :: fgo tol (zof first) ps) first) (last (first :: ps) first)) eqn:E.
  - repeat split; [exact E|]. constructor. apply fgo_subseq.
  - repeat split.
    + rewrite last_last. apply pt_eqb_refl.
    + (* the last sample was dropped by the loop, so appending it keeps the order *)
      destruct (exists_last (l := first :: ps) ltac:(discriminate)) as (body & l & Hb).
      destruct body as [|b body].
      * cbn in Hb. injection Hb as <- Hps. subst ps. cbn in E. rewrite pt_eqb_refl in E. discriminate.
      * cbn in Hb. injection Hb as <- Hps. subst ps.
        rewrite last_cons_app in *. rewrite fgo_app in *. cbn [fgo] in *.
        destruct (Qle_bool tol (Qabs (zof l - lastz (zof first) (fgo tol (zof first) body)))) eqn:K.
        -- rewrite last_cons_app in E. rewrite pt_eqb_refl in E. discriminate.
        -- rewrite app_nil_r. change (first :: body ++ [l]) with ((first :: body) ++ [l]).
           change ((first :: fgo tol (zof first) body) ++ [l]) with ((first :: fgo tol (zof first) body) ++ [l]).
           apply subseq_app; [constructor; apply fgo_subseq|apply subseq_refl].
Qed.

(* ---------------- sparse line sampler ---------------- *)
Lemma linspace_param n a b i : (1 <= n)%nat -> (i <= n)%nat ->
  linspace n a b i == a + (inject_Z (Z.of_nat i) / inject_Z (Z.of_nat n)) * (b - a).
Proof.
  intros Hn Hi. unfold linspace.
  assert (Hn0 : ~ inject_Z (Z.of_nat n) == 0).
  { intros E. assert (0 < inject_Z (Z.of_nat n)) by (change 0 with (inject_Z 0); rewrite <- Zlt_Qlt; lia). lra. }
  destruct (Nat.eqb_spec i n) as [->|Hne].
  - field. exact Hn0.
  - field. exact Hn0.
Qed.

(* the samples start and end exactly at the requested ends, lie on the segment at parameters i/n (in order),
   and carry the map's own height at their location *)
Theorem sparse_line_spec depth n x1 y1 x2 y2 : (1 <= n)%nat ->
  length (sparse_line depth n x1 y1 x2 y2) = S n /\
  (forall i, (i <= n)%nat ->
     let p := nth i (sparse_line depth n x1 y1 x2 y2) (0, 0, 0) in
     let t := inject_Z (Z.of_nat i) / inject_Z (Z.of_nat n) in
     0 <= t <= 1 /\ fst (fst p) == x1 + t * (x2 - x1) /\ snd (fst p) == y1 + t * (y2 - y1) /\
     zof p = depth (fst (fst p)) (snd (fst p))) /\
  fst (nth 0 (sparse_line depth n x1 y1 x2 y2) (0, 0, 0)) = (x1 + 0 * ((x2 - x1) / inject_Z (Z.of_nat n)), y1 + 0 * ((y2 - y1) / inject_Z (Z.of_nat n))) /\
  fst (nth n (sparse_line depth n x1 y1 x2 y2) (0, 0, 0)) = (x2, y2).
Proof.
  intros Hn. unfold sparse_line. cbn zeta. split; [rewrite map_length, seq_length; reflexivity|].
  assert (Hnth : forall i, (i <= n)%nat ->
     nth i (map (fun i => (linspace n x1 x2 i, linspace n y1 y2 i, depth (linspace n x1 x2 i) (linspace n y1 y2 i))) (seq 0 (S n))) (0, 0, 0)
     = (linspace n x1 x2 i, linspace n y1 y2 i, depth (linspace n x1 x2 i) (linspace n y1 y2 i))).
  { intros i Hi.
    set (f := fun i : nat => (linspace n x1 x2 i, linspace n y1 y2 i, depth (linspace n x1 x2 i) (linspace n y1 y2 i))).
    transitivity (nth i (map f (seq 0 (S n))) (f 0%nat)).
    - apply nth_indep. rewrite map_length, seq_length. lia.
    - rewrite (map_nth f (seq 0 (S n)) 0%nat i). rewrite seq_nth by lia. reflexivity. }
  split; [|split].
  - intros i Hi. rewrite (Hnth i Hi). cbn [fst snd zof].
    assert (Hpos : 0 < inject_Z (Z.of_nat n)) by (change 0 with (inject_Z 0); rewrite <- Zlt_Qlt; lia).
    assert (Hi0 : 0 <= inject_Z (Z.of_nat i)) by (change 0 with (inject_Z 0); rewrite <- Zle_Qle; lia).
    assert (Hin : inject_Z (Z.of_nat i) <= inject_Z (Z.of_nat n)) by (rewrite <- Zle_Qle; lia).
    repeat split.
    + apply Qle_shift_div_l; [exact Hpos|]. lra.
    + apply Qle_shift_div_r; [exact Hpos|]. lra.
    + apply linspace_param; assumption.
    + apply linspace_param; assumption.
  - rewrite (Hnth 0%nat ltac:(lia)). cbn [fst]. unfold linspace. destruct (Nat.eqb_spec 0 n); [lia|]. reflexivity.
  - rewrite (Hnth n ltac:(lia)). cbn [fst]. unfold linspace. rewrite Nat.eqb_refl. reflexivity.
Qed.

(* ---------------- raster line sampler: Bresenham ---------------- *)
(* the loop invariant: after i steps the minor coordinate has advanced k times with |2 (dr i - dc k)| <= dc *)
Lemma bres_nth steep dr dc sr sc : (0 <= dr <= dc)%Z -> (0 < dc)%Z ->
  forall fuel r c d i k0 i0, (2 * dr - 2 * dc <= d < 2 * dr)%Z ->
    d = (2 * dr * (i0 + 1) - dc - 2 * dc * k0)%Z -> (i < fuel)%nat ->
    exists k : Z, (0 <= k - k0)%Z /\
      nth i (bres fuel steep r c d dr dc sr sc) (0, 0)%Z =
        (if steep then ((c + Z.of_nat i * sc)%Z, (r + (k - k0) * sr)%Z) else ((r + (k - k0) * sr)%Z, (c + Z.of_nat i * sc)%Z)) /\
      (- dc <= 2 * (dr * (i0 + Z.of_nat i) - dc * k) < dc)%Z.
Proof.
  intros Hdr Hdc. induction fuel as [|f IH]; intros r c d i k0 i0 Hinv Hd Hi; [lia|].
  cbn [bres]. destruct (0 <=? d)%Z eqn:E.
  - apply Z.leb_le in E. destruct i as [|i].
    + exists k0. split; [lia|]. split.
      * cbn [nth]. replace (k0 - k0)%Z with 0%Z by lia. cbn [Z.of_nat]. rewrite !Z.mul_0_l, !Z.add_0_r. destruct steep; reflexivity.
      * cbn [Z.of_nat]. lia.
    + destruct (IH (r + sr)%Z (c + sc)%Z (d - 2 * dc + 2 * dr)%Z i (k0 + 1)%Z (i0 + 1)%Z ltac:(lia) ltac:(lia) ltac:(lia)) as (k & Hk & Hn & Hb).
      exists k. split; [lia|]. split.
      * cbn [nth]. rewrite Hn. replace (k - (k0 + 1))%Z with (k - k0 - 1)%Z by lia.
        rewrite Nat2Z.inj_succ. destruct steep; f_equal; lia.
      * rewrite Nat2Z.inj_succ. lia.
  - apply Z.leb_gt in E. destruct i as [|i].
    + exists k0. split; [lia|]. split.
      * cbn [nth]. replace (k0 - k0)%Z with 0%Z by lia. cbn [Z.of_nat]. rewrite !Z.mul_0_l, !Z.add_0_r. destruct steep; reflexivity.
      * cbn [Z.of_nat]. lia.
    + destruct (IH r (c + sc)%Z (d + 2 * dr)%Z i k0 (i0 + 1)%Z ltac:(lia) ltac:(lia) ltac:(lia)) as (k & Hk & Hn & Hb).
      exists k. split; [lia|]. split.
      * cbn [nth]. rewrite Hn. rewrite Nat2Z.inj_succ. destruct steep; f_equal; lia.
      * rewrite Nat2Z.inj_succ. lia.
Qed.

Lemma bres_length steep dr dc sr sc : forall fuel r c d, length (bres fuel steep r c d dr dc sr sc) = fuel.
Proof.
  induction fuel as [|f IH]; intros r c d; [reflexivity|]. cbn [bres]. destruct (0 <=? d)%Z; cbn [length]; now rewrite IH.
Qed.

(* skimage.draw.line: max(|dr|,|dc|) + 1 pixels; it ends on (r1, c1); pixel i (before the last) has moved exactly i
   steps along the major axis (in order) and k along the minor one with |k - i * minor/major| <= 1/2: within half a
   pixel of the ideal line *)
Theorem draw_line_spec r0 c0 r1 c1 :
  let dr := Z.abs (r1 - r0) in let dc := Z.abs (c1 - c0) in
  let sr := if (0 <? r1 - r0)%Z then 1%Z else (-1)%Z in
  let sc := if (0 <? c1 - c0)%Z then 1%Z else (-1)%Z in
  length (draw_line r0 c0 r1 c1) = S (Z.to_nat (Z.max dr dc)) /\
  last (draw_line r0 c0 r1 c1) (0, 0)%Z = (r1, c1) /\
  hd (0, 0)%Z (draw_line r0 c0 r1 c1) = (r0, c0) /\
  forall i, (i < Z.to_nat (Z.max dr dc))%nat -> exists k : Z,
    nth i (draw_line r0 c0 r1 c1) (0, 0)%Z =
      (if (dc <? dr)%Z then ((r0 + Z.of_nat i * sr)%Z, (c0 + k * sc)%Z) else ((r0 + k * sr)%Z, (c0 + Z.of_nat i * sc)%Z)) /\
    (if (dc <? dr)%Z then (- dr <= 2 * (dc * Z.of_nat i - dr * k) < dr)%Z else (- dc <= 2 * (dr * Z.of_nat i - dc * k) < dc)%Z).
Proof.
  cbn zeta. unfold draw_line.
  set (dr := Z.abs (r1 - r0)). set (dc := Z.abs (c1 - c0)).
  set (sr := if (0 <? r1 - r0)%Z then 1%Z else (-1)%Z). set (sc := if (0 <? c1 - c0)%Z then 1%Z else (-1)%Z).
  assert (Hr : (r0 + dr * sr = r1)%Z) by (unfold dr, sr; destruct (0 <? r1 - r0)%Z eqn:E; [apply Z.ltb_lt in E|apply Z.ltb_ge in E]; lia).
  assert (Hc : (c0 + dc * sc = c1)%Z) by (unfold dc, sc; destruct (0 <? c1 - c0)%Z eqn:E; [apply Z.ltb_lt in E|apply Z.ltb_ge in E]; lia).
  assert (Hdr0 : (0 <= dr)%Z) by (unfold dr; lia). assert (Hdc0 : (0 <= dc)%Z) by (unfold dc; lia).
  destruct (dc <? dr)%Z eqn:S.
  - apply Z.ltb_lt in S. rewrite Z.max_l by lia.
    split; [rewrite app_length, bres_length; cbn; lia|]. split; [apply last_last|].
    assert (Hnth : forall i, (i < Z.to_nat dr)%nat -> exists k : Z,
       nth i (bres (Z.to_nat dr) true c0 r0 (2 * dc - dr) dc dr sc sr) (0, 0)%Z = ((r0 + Z.of_nat i * sr)%Z, (c0 + k * sc)%Z) /\
       (- dr <= 2 * (dc * Z.of_nat i - dr * k) < dr)%Z).
    { intros i Hi.
      destruct (bres_nth true dc dr sc sr ltac:(lia) ltac:(lia) (Z.to_nat dr) c0 r0 (2 * dc - dr)%Z i 0%Z 0%Z ltac:(lia) ltac:(lia) Hi) as (k & _ & Hn & Hb).
      exists k. rewrite Hn. split; [f_equal; f_equal; lia|]. replace (0 + Z.of_nat i)%Z with (Z.of_nat i) in Hb by lia. exact Hb. }
    split.
    + destruct (Z.to_nat dr) as [|m] eqn:M; [lia|].
      destruct (Hnth 0%nat ltac:(lia)) as (k & Hn & Hb). cbn [Z.of_nat] in *.
      assert (k = 0%Z) by nia. subst k.
      rewrite <- M in *. destruct (bres (Z.to_nat dr) true c0 r0 (2 * dc - dr) dc dr sc sr) as [|p l] eqn:B.
      * apply (f_equal (@length _)) in B. rewrite bres_length in B. cbn in B. lia.
      * cbn [nth] in Hn. cbn [app hd]. rewrite Hn. f_equal; lia.
    + intros i Hi. destruct (Hnth i Hi) as (k & Hn & Hb). exists k. split; [|exact Hb].
      rewrite app_nth1 by (rewrite bres_length; exact Hi). exact Hn.
  - apply Z.ltb_ge in S. rewrite Z.max_r by lia.
    split; [rewrite app_length, bres_length; cbn; lia|]. split; [apply last_last|].
    destruct (Z.eq_dec dc 0) as [Z0|NZ].
    + rewrite Z0. cbn [Z.to_nat bres app hd]. split; [f_equal; lia|]. intros i Hi. lia.
    + assert (Hnth : forall i, (i < Z.to_nat dc)%nat -> exists k : Z,
         nth i (bres (Z.to_nat dc) false r0 c0 (2 * dr - dc) dr dc sr sc) (0, 0)%Z = ((r0 + k * sr)%Z, (c0 + Z.of_nat i * sc)%Z) /\
         (- dc <= 2 * (dr * Z.of_nat i - dc * k) < dc)%Z).
      { intros i Hi.
        destruct (bres_nth false dr dc sr sc ltac:(lia) ltac:(lia) (Z.to_nat dc) r0 c0 (2 * dr - dc)%Z i 0%Z 0%Z ltac:(lia) ltac:(lia) Hi) as (k & _ & Hn & Hb).
        exists k. rewrite Hn. split; [f_equal; f_equal; lia|]. replace (0 + Z.of_nat i)%Z with (Z.of_nat i) in Hb by lia. exact Hb. }
      split.
      * destruct (Z.to_nat dc) as [|m] eqn:M; [lia|].
        destruct (Hnth 0%nat ltac:(lia)) as (k & Hn & Hb). cbn [Z.of_nat] in *.
        assert (k = 0%Z) by nia. subst k.
        rewrite <- M in *. destruct (bres (Z.to_nat dc) false r0 c0 (2 * dr - dc) dr dc sr sc) as [|p l] eqn:B.
        -- apply (f_equal (@length _)) in B. rewrite bres_length in B. cbn in B. lia.
        -- cbn [nth] in Hn. cbn [app hd]. rewrite Hn. f_equal; lia.
      * intros i Hi. destruct (Hnth i Hi) as (k & Hn & Hb). exists k. split; [|exact Hb].
        rewrite app_nth1 by (rewrite bres_length; exact Hi). exact Hn.
Qed.

(* ---------------- get_depth_at wrappers ---------------- *)
Section RasterThm.
  Variables (width height : Z) (scale : Q) (interp : Q -> Q -> Q).

  (* zero outside the image *)
  Theorem raster_outside x y : x < 0 \/ inject_Z width <= x \/ y < 0 \/ inject_Z height <= y ->
    raster_depth width height scale interp x y = 0.
  Proof.
    intros H. unfold raster_depth.
    destruct (Qlt_le_dec x 0); [reflexivity|]. destruct (Qlt_le_dec x (inject_Z width)); [|reflexivity].
    destruct (Qlt_le_dec y 0); [reflexivity|]. destruct (Qlt_le_dec y (inject_Z height)); [|reflexivity].
    exfalso. destruct H as [H|[H|[H|H]]]; lra.
  Qed.

  (* inside: the interpolator is asked for (row = y, column = x), times the scale *)
  Theorem raster_inside x y : 0 <= x < inject_Z width -> 0 <= y < inject_Z height ->
    raster_depth width height scale interp x y = scale * interp y x.
  Proof.
    intros Hx Hy. unfold raster_depth.
    destruct (Qlt_le_dec x 0); [lra|]. destruct (Qlt_le_dec x (inject_Z width)); [|lra].
    destruct (Qlt_le_dec y 0); [lra|]. destruct (Qlt_le_dec y (inject_Z height)); [reflexivity|lra].
  Qed.

  (* if the interpolant reproduces the grid (hypothesis on scipy's RectBivariateSpline), then at every pixel
     centre the depth is scale * stored height, with x = column and y = row *)
  Theorem raster_pixel_centre (pixel : Z -> Z -> Z) (sixteen : bool) :
    (forall row col, (0 <= row < height)%Z -> (0 <= col < width)%Z ->
       interp (inject_Z row) (inject_Z col) == normalise sixteen (pixel row col)) ->
    forall row col, (0 <= row < height)%Z -> (0 <= col < width)%Z ->
      raster_depth width height scale interp (inject_Z col) (inject_Z row) == scale * normalise sixteen (pixel row col).
  Proof.
    intros Hi row col Hr Hc. rewrite raster_inside.
    - rewrite Hi by assumption. reflexivity.
    - change 0 with (inject_Z 0). rewrite <- Zle_Qle, <- Zlt_Qlt. exact Hc.
    - change 0 with (inject_Z 0). rewrite <- Zle_Qle, <- Zlt_Qlt. exact Hr.
  Qed.
End RasterThm.

(* ---------------- barycentric interpolation on a given triangulation ---------------- *)
Definition tri_in (lo hi : Q) (t : vtx * vtx * vtx) : Prop :=
  let '(a, b, c) := t in lo <= vz a <= hi /\ lo <= vz b <= hi /\ lo <= vz c <= hi.

Lemma bary_weights a b c x y w0 w1 w2 : bary a b c x y = Some (w0, w1, w2) ->
  0 <= w0 /\ 0 <= w1 /\ 0 <= w2 /\ w0 + w1 + w2 == 1.
Proof.
  unfold bary. destruct (Qeq_bool _ 0); [discriminate|].
  set (W1 := det2 (x - vx a) (y - vy a) (vx c - vx a) (vy c - vy a) / _).
  set (W2 := det2 (vx b - vx a) (vy b - vy a) (x - vx a) (y - vy a) / _).
  destruct (Qle_bool 0 (1 - W1 - W2)) eqn:E0; [|discriminate].
  destruct (Qle_bool 0 W1) eqn:E1; [|discriminate]. destruct (Qle_bool 0 W2) eqn:E2; [|discriminate].
  cbn [andb]. intros H. injection H as <- <- <-.
  apply Qle_bool_iff in E0, E1, E2. repeat split; try assumption. ring.
Qed.

(* inside the triangulated region the value is between the smallest and largest stored height; outside every
   triangle it is 0 (the fill value) *)
Theorem tri_interp_range lo hi tris x y : Forall (tri_in lo hi) tris ->
  (forall t, In t tris -> let '(a, b, c) := t in bary a b c x y = None) /\ tri_interp tris x y = 0 \/
  (exists t, In t tris /\ let '(a, b, c) := t in bary a b c x y <> None) /\ lo <= tri_interp tris x y <= hi.
Proof.
  induction 1 as [|[[a b] c] tris Ht _ IH]; [left; split; [intros t []|reflexivity]|].
  cbn [tri_interp]. destruct (bary a b c x y) as [[[w0 w1] w2]|] eqn:B.
  - right. split; [exists (a, b, c); split; [left; reflexivity|rewrite B; discriminate]|].
    destruct (bary_weights _ _ _ _ _ _ _ _ B) as (H0 & H1 & H2 & Hs). destruct Ht as ([? ?] & [? ?] & [? ?]).
    assert (E : w0 == 1 - w1 - w2) by lra. split; nra.
  - destruct IH as [[Hn Hz]|[[t [Hin Hs]] Hr]].
    + left. split; [|exact Hz]. intros t [<-|Hin]; [exact B|apply Hn; exact Hin].
    + right. split; [exists t; split; [right; exact Hin|exact Hs]|exact Hr].
Qed.

(* at a vertex of the first triangle that contains it the stored height is returned *)
Theorem tri_interp_vertex a b c rest :
  ~ det2 (vx b - vx a) (vy b - vy a) (vx c - vx a) (vy c - vy a) == 0 ->
  tri_interp ((a, b, c) :: rest) (vx a) (vy a) == vz a.
Proof.
  intros Hd. cbn [tri_interp]. unfold bary.
  destruct (Qeq_bool (det2 (vx b - vx a) (vy b - vy a) (vx c - vx a) (vy c - vy a)) 0) eqn:E; [apply Qeq_bool_iff in E; contradiction|].
  set (dd := det2 (vx b - vx a) (vy b - vy a) (vx c - vx a) (vy c - vy a)) in *.
  assert (W1 : det2 (vx a - vx a) (vy a - vy a) (vx c - vx a) (vy c - vy a) / dd == 0) by (unfold det2; field; exact Hd).
  assert (W2 : det2 (vx b - vx a) (vy b - vy a) (vx a - vx a) (vy a - vy a) / dd == 0) by (unfold det2; field; exact Hd).
  set (w1 := det2 (vx a - vx a) (vy a - vy a) (vx c - vx a) (vy c - vy a) / dd) in *.
  set (w2 := det2 (vx b - vx a) (vy b - vy a) (vx a - vx a) (vy a - vy a) / dd) in *.
  assert (K0 : Qle_bool 0 (1 - w1 - w2) = true) by (apply Qle_bool_iff; lra).
  assert (K1 : Qle_bool 0 w1 = true) by (apply Qle_bool_iff; lra).
  assert (K2 : Qle_bool 0 w2 = true) by (apply Qle_bool_iff; lra).
  rewrite K0, K1, K2. cbn [andb]. rewrite W1, W2. ring.
Qed.

(* the weights are the barycentric coordinates of the query point: they reproduce its location, so the value returned is
   the height at (x, y) of the plane through the three stored vertices *)
Theorem bary_point a b c x y w0 w1 w2 : bary a b c x y = Some (w0, w1, w2) ->
  x == w0 * vx a + w1 * vx b + w2 * vx c /\ y == w0 * vy a + w1 * vy b + w2 * vy c.
Proof.
  unfold bary. destruct (Qeq_bool _ 0) eqn:E; [discriminate|].
  assert (Hd : ~ det2 (vx b - vx a) (vy b - vy a) (vx c - vx a) (vy c - vy a) == 0)
    by (intros K; apply Qeq_bool_iff in K; rewrite K in E; discriminate).
  destruct (Qle_bool 0 _ && Qle_bool 0 _ && Qle_bool 0 _); [|discriminate].
  intros H. injection H as <- <- <-. unfold det2 in *. split; field; exact Hd.
Qed.

(* exactness on affine height fields: if the three stored heights lie on a plane z = p x + q y + r, every query
   inside the triangle returns the plane's height there *)
Theorem tri_interp_affine a b c rest p q r x y :
  vz a == p * vx a + q * vy a + r -> vz b == p * vx b + q * vy b + r -> vz c == p * vx c + q * vy c + r ->
  bary a b c x y <> None -> tri_interp ((a, b, c) :: rest) x y == p * x + q * y + r.
Proof.
  intros Ha Hb Hc Hn. cbn [tri_interp]. destruct (bary a b c x y) as [[[w0 w1] w2]|] eqn:B; [|contradiction].
  destruct (bary_point _ _ _ _ _ _ _ _ B) as [Hx Hy]. destruct (bary_weights _ _ _ _ _ _ _ _ B) as (_ & _ & _ & Hs).
  rewrite Ha, Hb, Hc. rewrite Hx at 1. rewrite Hy at 1.
  assert (E : r == (w0 + w1 + w2) * r) by (rewrite Hs; ring). rewrite E at 4. ring.
Qed.

(* the other two vertices of the first triangle: the stored height is returned there too *)
Theorem tri_interp_vertex_b a b c rest :
  ~ det2 (vx b - vx a) (vy b - vy a) (vx c - vx a) (vy c - vy a) == 0 ->
  tri_interp ((a, b, c) :: rest) (vx b) (vy b) == vz b.
Proof.
  intros Hd. cbn [tri_interp]. unfold bary.
  destruct (Qeq_bool (det2 (vx b - vx a) (vy b - vy a) (vx c - vx a) (vy c - vy a)) 0) eqn:E; [apply Qeq_bool_iff in E; contradiction|].
  set (dd := det2 (vx b - vx a) (vy b - vy a) (vx c - vx a) (vy c - vy a)) in *.
  assert (W1 : dd / dd == 1) by (field; exact Hd).
  assert (W2 : det2 (vx b - vx a) (vy b - vy a) (vx b - vx a) (vy b - vy a) / dd == 0) by (unfold det2; field; exact Hd).
  set (w1 := dd / dd) in *.
  set (w2 := det2 (vx b - vx a) (vy b - vy a) (vx b - vx a) (vy b - vy a) / dd) in *.
  assert (K0 : Qle_bool 0 (1 - w1 - w2) = true) by (apply Qle_bool_iff; lra).
  assert (K1 : Qle_bool 0 w1 = true) by (apply Qle_bool_iff; lra).
  assert (K2 : Qle_bool 0 w2 = true) by (apply Qle_bool_iff; lra).
  rewrite K0, K1, K2. cbn [andb]. rewrite W1, W2. ring.
Qed.

Theorem tri_interp_vertex_c a b c rest :
  ~ det2 (vx b - vx a) (vy b - vy a) (vx c - vx a) (vy c - vy a) == 0 ->
  tri_interp ((a, b, c) :: rest) (vx c) (vy c) == vz c.
Proof.
  intros Hd. cbn [tri_interp]. unfold bary.
  destruct (Qeq_bool (det2 (vx b - vx a) (vy b - vy a) (vx c - vx a) (vy c - vy a)) 0) eqn:E; [apply Qeq_bool_iff in E; contradiction|].
  set (dd := det2 (vx b - vx a) (vy b - vy a) (vx c - vx a) (vy c - vy a)) in *.
  assert (W1 : det2 (vx c - vx a) (vy c - vy a) (vx c - vx a) (vy c - vy a) / dd == 0) by (unfold det2; field; exact Hd).
  assert (W2 : dd / dd == 1) by (field; exact Hd).
  set (w1 := det2 (vx c - vx a) (vy c - vy a) (vx c - vx a) (vy c - vy a) / dd) in *.
  set (w2 := dd / dd) in *.
  assert (K0 : Qle_bool 0 (1 - w1 - w2) = true) by (apply Qle_bool_iff; lra).
  assert (K1 : Qle_bool 0 w1 = true) by (apply Qle_bool_iff; lra).
  assert (K2 : Qle_bool 0 w2 = true) by (apply Qle_bool_iff; lra).
  rewrite K0, K1, K2. cbn [andb]. rewrite W1, W2. ring.
Qed.

(* barycentric coordinates are unique: whatever weights summing to 1 reproduce the query point in a non-degenerate
   triangle are the ones bary computes, so the value does not depend on how they were obtained (vertex order, solver) *)
Theorem bary_unique a b c x y w0 w1 w2 u0 u1 u2 : bary a b c x y = Some (w0, w1, w2) ->
  u0 + u1 + u2 == 1 -> x == u0 * vx a + u1 * vx b + u2 * vx c -> y == u0 * vy a + u1 * vy b + u2 * vy c ->
  w0 == u0 /\ w1 == u1 /\ w2 == u2.
Proof.
  unfold bary. destruct (Qeq_bool _ 0) eqn:E; [discriminate|].
  assert (Hd : ~ det2 (vx b - vx a) (vy b - vy a) (vx c - vx a) (vy c - vy a) == 0)
    by (intros K; apply Qeq_bool_iff in K; rewrite K in E; discriminate).
  destruct (Qle_bool 0 _ && Qle_bool 0 _ && Qle_bool 0 _); [|discriminate].
  intros H Hs Hx Hy. injection H as <- <- <-.
  assert (E0 : u0 == 1 - u1 - u2) by lra.
  assert (W1 : det2 (x - vx a) (y - vy a) (vx c - vx a) (vy c - vy a) / det2 (vx b - vx a) (vy b - vy a) (vx c - vx a) (vy c - vy a) == u1).
  { unfold det2 in *. rewrite Hx, Hy, E0. field. exact Hd. }
  assert (W2 : det2 (vx b - vx a) (vy b - vy a) (x - vx a) (y - vy a) / det2 (vx b - vx a) (vy b - vy a) (vx c - vx a) (vy c - vy a) == u2).
  { unfold det2 in *. rewrite Hx, Hy, E0. field. exact Hd. }
  rewrite W1, W2. repeat split; lra.
Qed.

(* with a positive scale the scaled value is between scale x min and scale x max inside, 0 outside *)
Theorem sparse_depth_range scale lo hi tris x y : 0 < scale -> Forall (tri_in lo hi) tris ->
  sparse_depth scale tris x y == 0 \/ scale * lo <= sparse_depth scale tris x y <= scale * hi.
Proof.
  intros Hs Hf. unfold sparse_depth. destruct (tri_interp_range lo hi tris x y Hf) as [[_ Hz]|[_ [H1 H2]]].
  - left. rewrite Hz. ring.
  - right. split; nra.
Qed.

(* ---------------- sample_path as a whole ---------------- *)
Lemma subseq_Forall {A} (P : A -> Prop) l1 l2 : subseq l1 l2 -> Forall P l2 -> Forall P l1.
Proof.
  induction 1 as [|x l1 l2 _ IH|x l1 l2 _ IH]; intros H; [constructor| |]; inversion H; subst; [constructor; auto|auto].
Qed.

Lemma hd_error_map {A B} (f : A -> B) l : hd_error (map f l) = option_map f (hd_error l).
Proof. destruct l; reflexivity. Qed.

Lemma last_map' {A B} (f : A -> B) l d : last (map f l) (f d) = f (last l d).
Proof. induction l as [|x l IH]; [reflexivity|]. cbn [map last]. destruct l; [reflexivity|exact IH]. Qed.
Lemma last_indep' {A} (l : list A) d d' : l <> [] -> last l d = last l d'.
Proof. induction l as [|x l IH]; [congruence|]. intros _. cbn [last]. destruct l; [reflexivity|]. apply IH. discriminate. Qed.
Lemma last_nth' {A} (l : list A) d : last l d = nth (length l - 1) l d.
Proof. induction l as [|x l IH]; [reflexivity|]. cbn [last length]. destruct l; [reflexivity|]. rewrite IH. cbn [length]. replace (S (S (length l)) - 1)%nat with (S (S (length l) - 1)) by lia. reflexivity. Qed.

Lemma hd_error_hd {A} (l : list A) d : l <> [] -> hd_error l = Some (hd d l).
Proof. destruct l; [congruence|reflexivity]. Qed.

(* raster maps: the returned path starts at the pixel of the rounded start, ends at the pixel of the rounded end,
   is an in-order selection of the pixel line, and every point carries the map's own height at its location *)
Theorem raster_path_spec width height scale interp tol x1 y1 x2 y2 : 0 < tol ->
  let r0 := py_round x1 in let c0 := py_round y1 in let r1 := py_round x2 in let c1 := py_round y2 in
  let depth := raster_depth width height scale interp in
  let path := raster_sample_path width height scale interp tol x1 y1 x2 y2 in
  let first := (inject_Z r0, inject_Z c0, depth (inject_Z r0) (inject_Z c0)) in
  hd_error path = Some first /\
  pt_eqb (last path first) (inject_Z r1, inject_Z c1, depth (inject_Z r1) (inject_Z c1)) = true /\
  subseq path (raster_line width height scale interp x1 y1 x2 y2) /\
  Forall (fun p => zof p = depth (fst (fst p)) (snd (fst p))) path.
Proof.
  intros Ht. cbn zeta. unfold raster_sample_path, raster_line.
  set (f := fun rc : Z * Z => (inject_Z (fst rc), inject_Z (snd rc), raster_depth width height scale interp (inject_Z (fst rc)) (inject_Z (snd rc)))).
  set (line := draw_line (py_round x1) (py_round y1) (py_round x2) (py_round y2)).
  destruct (draw_line_spec (py_round x1) (py_round y1) (py_round x2) (py_round y2)) as (Hlen & Hlast & Hhd & _). fold line in Hlen, Hlast, Hhd.
  assert (Hne : line <> []) by (intros E; rewrite E in Hlen; discriminate).
  assert (Hfirst : hd_error (map f line) = Some (f (py_round x1, py_round y1))).
  { rewrite hd_error_map, (hd_error_hd line (0, 0)%Z Hne), Hhd. reflexivity. }
  destruct (filter_spec tol (map f line) _ Ht Hfirst) as (A & B & C).
  change (map (fun rc : Z * Z => let x := inject_Z (fst rc) in let y := inject_Z (snd rc) in
             (x, y, raster_depth width height scale interp x y)) line) with (map f line).
  repeat split.
  - exact A.
  - rewrite (last_map' f line (py_round x1, py_round y1)) in B.
    rewrite (last_indep' line (py_round x1, py_round y1) (0, 0)%Z Hne), Hlast in B. exact B.
  - exact C.
  - eapply subseq_Forall; [exact C|]. apply Forall_forall. intros p Hin. apply in_map_iff in Hin as (rc & <- & _). reflexivity.
Qed.

(* sparse maps: the returned path starts exactly at (x1, y1), ends exactly at (x2, y2), is an in-order selection of the
   n + 1 equally spaced samples of the segment, and every point carries the map's own height *)
Theorem sparse_path_spec depth tol n x1 y1 x2 y2 : 0 < tol -> (1 <= n)%nat ->
  let path := sparse_sample_path depth tol n x1 y1 x2 y2 in
  (exists z0, hd_error path = Some (x1 + 0 * ((x2 - x1) / inject_Z (Z.of_nat n)), y1 + 0 * ((y2 - y1) / inject_Z (Z.of_nat n)), z0)) /\
  (exists zl first, pt_eqb (last path first) (x2, y2, zl) = true) /\
  subseq path (sparse_line depth n x1 y1 x2 y2) /\
  Forall (fun p => zof p = depth (fst (fst p)) (snd (fst p))) path.
Proof.
  intros Ht Hn. cbn zeta. unfold sparse_sample_path.
  destruct (sparse_line_spec depth n x1 y1 x2 y2 Hn) as (Hlen & Hall & H0 & Hl).
  set (line := sparse_line depth n x1 y1 x2 y2) in *.
  assert (Hne : line <> []) by (intros E; rewrite E in Hlen; discriminate).
  destruct line as [|p0 rest] eqn:EL; [congruence|].
  destruct (filter_spec tol (p0 :: rest) p0 Ht eq_refl) as (A & B & C).
  repeat split.
  - exists (snd p0). rewrite A. cbn [nth] in H0. destruct p0 as [[a b] c]. cbn in *. injection H0 as -> ->. reflexivity.
  - exists (snd (last (p0 :: rest) p0)), p0.
    assert (E : last (p0 :: rest) p0 = nth n (p0 :: rest) (0, 0, 0)).
    { rewrite (last_indep' (p0 :: rest) p0 (0, 0, 0)) by discriminate. rewrite last_nth'. f_equal. rewrite Hlen. lia. }
    rewrite E in *. destruct (nth n (p0 :: rest) (0, 0, 0)) as [[a b] c] eqn:EN. cbn in Hl. injection Hl as -> ->. exact B.
  - exact C.
  - eapply subseq_Forall; [exact C|]. apply Forall_forall. intros p Hin.
    destruct (In_nth _ _ (0, 0, 0) Hin) as (i & Hi & <-). rewrite Hlen in Hi.
    destruct (Hall i ltac:(lia)) as (_ & _ & _ & Hz). exact Hz.
Qed.
