(* C20: move hooks see the true move; the bundled extrusion hook. *)
From Coq Require Import ZArith QArith Qround Bool List String Lia Lqa.
From GS Require Import gen.GenTables model.Num model.Builder model.Interp proofs.Tables proofs.FlagsProofs
  proofs.NumProofs proofs.InterlockProofs proofs.AtomicProofs proofs.BoundsProofs proofs.MirrorProofs proofs.TrackProofs.
Import ListNotations.
Open Scope string_scope.
Open Scope list_scope.

(* ---------------------------------------------------------------- who is called, with what *)
Lemma run_hooks_calls s hs : forall o t ps,
  snd (run_hooks s hs o t ps) = map (fun h => HookCall (hook_id h) o t) hs.
Proof.
  induction hs as [|h hs IH]; intros o t ps; cbn [run_hooks map snd]; [reflexivity|].
  specialize (IH o t (run_hook s h o t ps qsqrt)).
  destruct (run_hooks s hs o t (run_hook s h o t ps qsqrt)) as [ps'' calls]. cbn [snd] in *. now rewrite IH.
Qed.

Definition calls_of (r : res) : list hookcall := match r with (_, _, c, _) => c end.

(* a linear move calls every registered hook exactly once, in registration order, with the resolved
   current position and the absolute target of the move vector; a rapid move calls none *)
Theorem do_move_calls dp k s r mv tg ps :
  calls_of (do_move dp k s r mv tg ps) =
  match k with
  | Linear => map (fun h => HookCall (hook_id h) (resolve (pos s)) (to_absolute s mv)) (hooks s)
  | Rapid => []
  end.
Proof.
  unfold do_move. destruct k.
  - destruct (hooks s) as [|h hs] eqn:Eh.
    + cbn [map]. destruct (track s ps) as [s1 [e|]]; [reflexivity|]. destruct (negb _); [reflexivity|].
      destruct (update_axes _ _ _ _); reflexivity.
    + rewrite <- Eh. pose proof (run_hooks_calls s (hooks s) (resolve (pos s)) (to_absolute s mv) ps) as Hc.
      destruct (run_hooks s (hooks s) (resolve (pos s)) (to_absolute s mv) ps) as [ps1 calls]. cbn [snd] in Hc.
      destruct (track s ps1) as [s1 [e|]]; [exact Hc|]. destruct (negb _); [exact Hc|].
      destruct (update_axes _ _ _ _); exact Hc.
  - destruct (track s ps) as [s1 [e|]]; [reflexivity|]. destruct (negb _); [reflexivity|].
    destruct (update_axes _ _ _ _); reflexivity.
Qed.

(* with no transform active the target handed to the hooks is the tracked position after the move *)
Definition peq (a b : point) : Prop :=
  (res1 (px a) == res1 (px b))%Q /\ (res1 (py a) == res1 (py b))%Q /\ (res1 (pz a) == res1 (pz b))%Q.

Lemma to_absolute_axis s mv :
  (res1 (px (to_absolute s mv)) == match dm s with Relative => res1 (px (pos s)) + res1 (px mv) | Absolute => match px mv with Some v => v | None => res1 (px (pos s)) end end)%Q /\
  (res1 (py (to_absolute s mv)) == match dm s with Relative => res1 (py (pos s)) + res1 (py mv) | Absolute => match py mv with Some v => v | None => res1 (py (pos s)) end end)%Q /\
  (res1 (pz (to_absolute s mv)) == match dm s with Relative => res1 (pz (pos s)) + res1 (pz mv) | Absolute => match pz mv with Some v => v | None => res1 (pz (pos s)) end end)%Q.
Proof.
  unfold to_absolute. destruct (dm s); cbn [px py pz padd replace resolve lift2 rep1 res1].
  - destruct (px mv), (py mv), (pz mv); cbn [rep1 res1]; repeat split; reflexivity.
  - rewrite !qadd_eq. repeat split; reflexivity.
Qed.

Theorem hook_target_is_tracked s p : tf s = aff_id ->
  let '(mv, tg) := transform_move s p in peq (to_absolute s mv) tg.
Proof.
  intros Htf. pose proof (transform_move_id s p Htf) as H. destruct (transform_move s p) as [mv tg].
  cbn zeta in H. destruct H as (Hx & Hy & Hz). destruct (to_absolute_axis s mv) as (Ax & Ay & Az).
  unfold peq. rewrite Ax, Ay, Az. unfold axis_spec in *.
  destruct (dm s);
    (split; [|split]);
    match goal with
    | H : match ?r with Some _ => _ | None => _ end |- _ =>
      idtac
    end.
  all: try (destruct (px p) as [v|]; [destruct Hx as ((m & -> & Em) & (t & -> & Et)); cbn [res1]; rewrite Et, ?Em; try ring; reflexivity
            | destruct Hx as (-> & [(t & -> & Et)|Hb]); cbn [res1]; [rewrite Et; try ring; reflexivity|rewrite Hb; try ring; reflexivity]]).
  all: try (destruct (py p) as [v|]; [destruct Hy as ((m & -> & Em) & (t & -> & Et)); cbn [res1]; rewrite Et, ?Em; try ring; reflexivity
            | destruct Hy as (-> & [(t & -> & Et)|Hb]); cbn [res1]; [rewrite Et; try ring; reflexivity|rewrite Hb; try ring; reflexivity]]).
  all: try (destruct (pz p) as [v|]; [destruct Hz as ((m & -> & Em) & (t & -> & Et)); cbn [res1]; rewrite Et, ?Em; try ring; reflexivity
            | destruct Hz as (-> & [(t & -> & Et)|Hb]); cbn [res1]; [rewrite Et; try ring; reflexivity|rewrite Hb; try ring; reflexivity]]).
Qed.

(* ---------------------------------------------------------------- the bundled extrusion hook *)
(* the square root used for math.hypot: correct to 2^-60 *)
Lemma qsqrt_bounds q : (0 <= q)%Q ->
  (qsqrt q * qsqrt q <= q)%Q /\ (q < (qsqrt q + (1 # Pos.pow 2 60)) * (qsqrt q + (1 # Pos.pow 2 60)))%Q.
Proof.
  intros Hq. unfold qsqrt. rewrite !Qred_correct.
  set (sc := (2 ^ 120)%Z). set (n := Qfloor (q * (sc # 1))). set (r := Z.sqrt n).
  assert (Hn : (0 <= n)%Z).
  { unfold n. change 0%Z with (Qfloor 0). apply Qfloor_resp_le. apply Qmult_le_0_compat; [exact Hq|discriminate]. }
  destruct (Z.sqrt_spec n Hn) as [H1 H2]. fold r in H1, H2.
  assert (Hfl : (inject_Z n <= q * (sc # 1))%Q) by apply Qfloor_le.
  assert (Hfu : (q * (sc # 1) < inject_Z (n + 1))%Q) by apply Qlt_floor.
  assert (Hsc : ((sc # 1) == inject_Z (2 ^ 60) * inject_Z (2 ^ 60))%Q) by reflexivity.
  assert (Hd : ((r # Pos.pow 2 60) == inject_Z r / inject_Z (2 ^ 60))%Q).
  { unfold Qeq, Qdiv, Qmult, Qinv, inject_Z. cbn [Qnum Qden]. change (2 ^ 60)%Z with (Z.pos (2 ^ 60)). cbn. ring. }
  assert (He : ((1 # Pos.pow 2 60) == 1 / inject_Z (2 ^ 60))%Q) by reflexivity.
  assert (Hp : (0 < inject_Z (2 ^ 60))%Q) by reflexivity.
  rewrite Hd, He. set (T := inject_Z (2 ^ 60)) in *.
  assert (Hr1 : (inject_Z r * inject_Z r <= q * (T * T))%Q).
  { rewrite <- Hsc. eapply Qle_trans; [|exact Hfl]. rewrite <- inject_Z_mult. rewrite <- Zle_Qle. exact H1. }
  assert (Hr2 : (q * (T * T) < (inject_Z r + 1) * (inject_Z r + 1))%Q).
  { rewrite <- Hsc. eapply Qlt_le_trans; [exact Hfu|].
    change 1%Q with (inject_Z 1). rewrite <- inject_Z_plus, <- inject_Z_mult, <- Zle_Qle. unfold Z.succ in H2. lia. }
  split.
  - setoid_replace (inject_Z r / T * (inject_Z r / T))%Q with ((inject_Z r * inject_Z r) / (T * T))%Q by (field; lra).
    apply Qle_shift_div_r; [nra|exact Hr1].
  - setoid_replace ((inject_Z r / T + 1 / T) * (inject_Z r / T + 1 / T))%Q
      with (((inject_Z r + 1) * (inject_Z r + 1)) / (T * T))%Q by (field; lra).
    apply Qlt_shift_div_l; [nra|exact Hr2].
Qed.

(* what the extrusion hook puts into the parameters: (nozzle*layer / cross-section) * XY length, plus
   the remembered E in absolute extrusion mode (a remembered E of exactly 0 or none adds nothing) *)
Definition xy_len (o t : point) : Q :=
  qsqrt (qadd (qmul (qsub (res1 (px t)) (res1 (px o))) (qsub (res1 (px t)) (res1 (px o))))
              (qmul (qsub (res1 (py t)) (res1 (py o))) (qsub (res1 (py t)) (res1 (py o))))).

Lemma pget_pset k v ps k' : pget k' (pset k v ps) = if String.eqb k' k then Some v else pget k' ps.
Proof.
  induction ps as [|[k0 v0] ps IH]; cbn [pset pget].
  - destruct (String.eqb k' k); reflexivity.
  - destruct (String.eqb_spec k k0) as [->|Hne]; cbn [pget].
    + destruct (String.eqb k' k0); reflexivity.
    + destruct (String.eqb_spec k' k0) as [->|Hne'].
      * destruct (String.eqb_spec k0 k); [congruence|reflexivity].
      * exact IH.
Qed.

Theorem extrusion_hook_amount s id area cross o t ps :
  pget "E" (run_hook s (HExtrude id area cross) o t ps qsqrt) =
  Some (Fin (let amount := qdiv (qmul area (xy_len o t)) cross in
             match em s with
             | ERelative => amount
             | EAbsolute => match cget "E" (cparams s) with
                            | Some e => if xis_zero e then amount else qadd amount (xq e)
                            | None => amount
                            end
             end)).
Proof.
  cbn [run_hook]. rewrite pget_pset. cbn. unfold xy_len. destruct (em s); [|reflexivity].
  destruct (cget "E" (cparams s)) as [e|]; [destruct (xis_zero e)|]; reflexivity.
Qed.

(* the parameters left by the hooks are the ones emitted, and the ones remembered afterwards *)
Lemma cget_pset k v (c : list (string * option xnum)) k' :
  cget k' (pset k v c) = if String.eqb k' k then v else cget k' c.
Proof.
  induction c as [|[k0 v0] c IH]; cbn [pset cget].
  - destruct (String.eqb k' k); reflexivity.
  - destruct (String.eqb_spec k k0) as [->|Hne]; cbn [cget].
    + destruct (String.eqb k' k0); reflexivity.
    + destruct (String.eqb_spec k' k0) as [->|Hne'].
      * destruct (String.eqb_spec k0 k); [congruence|reflexivity].
      * exact IH.
Qed.

Lemma remember_fold k : forall ps c, NoDup (map fst ps) ->
  cget k (fold_left (fun c kv => pset (fst kv) (Some (snd kv)) c) ps c) =
  match pget k ps with Some v => Some v | None => cget k c end.
Proof.
  induction ps as [|[k0 v0] ps IH]; intros c Hn; cbn [fold_left pget fst snd]; [reflexivity|].
  inversion Hn as [|? ? Hni Hn']; subst. rewrite (IH _ Hn'), cget_pset.
  destruct (String.eqb_spec k k0) as [->|Hne]; [|reflexivity].
  destruct (pget k0 ps) eqn:E; [|reflexivity]. exfalso. apply Hni.
  clear -E. induction ps as [|[k1 v1] ps IH]; cbn in *; [discriminate|].
  destruct (String.eqb_spec k0 k1) as [->|]; [now left|right; now apply IH].
Qed.

Theorem remembered_params s r ps k : params_ok ps -> reserved k = false ->
  cget k (cparams (remember s r ps)) = match pget k ps with Some v => Some v | None => cget k (cparams s) end.
Proof.
  intros [Hn _] Hk. unfold remember. cbn [cparams set_cparams]. destruct (reserved_not k Hk) as (_ & _ & _ & HX & HY & HZ).
  rewrite !cget_pset.
  destruct (String.eqb_spec k "Z"); [congruence|]. destruct (String.eqb_spec k "Y"); [congruence|].
  destruct (String.eqb_spec k "X"); [congruence|]. now apply remember_fold.
Qed.
