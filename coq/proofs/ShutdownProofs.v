(* C06: switching off always succeeds, from every state and under every bounds table. *)
From Coq Require Import ZArith QArith Bool List String.
From GS Require Import gen.GenTables model.Num model.Builder model.Interp proofs.Tables proofs.FlagsProofs.
Import ListNotations.
Open Scope string_scope.
Open Scope list_scope.

Lemma tool_off_total dp s :
  let r := step1 dp s ToolOff in
  err_of r = None /\ lines_of r = [[W "M" 5]] /\ tool_on (st_of r) = false /\ cool_on (st_of r) = cool_on s.
Proof. cbn [step1 ok err_of lines_of st_of]. rewrite i_spin_m. repeat split. Qed.

Lemma power_off_total dp s :
  let r := step1 dp s PowerOff in
  err_of r = None /\ lines_of r = [[W "M" 5]] /\ tool_on (st_of r) = false /\ cool_on (st_of r) = cool_on s.
Proof. cbn [step1 ok err_of lines_of st_of]. rewrite i_power_m. repeat split. Qed.

Lemma coolant_off_total dp s :
  let r := step1 dp s CoolantOff in
  err_of r = None /\ lines_of r = [[W "M" 9]] /\ cool_on (st_of r) = false /\ tool_on (st_of r) = tool_on s.
Proof. cbn [step1 ok err_of lines_of st_of]. rewrite i_coolant_m. repeat split. Qed.

Lemma emergency_total dp s reset :
  let r := step1 dp s (EmergencyHalt reset) in
  err_of r = None /\
  lines_of r = [[W "M" 5]; [W "M" 9]; []; [W "M" (if reset then 30 else 0)]] /\
  tool_on (st_of r) = false /\ cool_on (st_of r) = false.
Proof.
  cbn [step1]. unfold halt_cmd, try_halt.
  cbn [tool_on cool_on written coolant_off tool_off set_haltm set_spinm set_tool_on set_tpower set_powerm
       set_coolm set_cool_on pget params_finite forallb negb ok fail err_of lines_of st_of app pwords map].
  rewrite i_spin_m, i_coolant_m.
  destruct reset; rewrite i_halt_m by discriminate; repeat split.
Qed.
