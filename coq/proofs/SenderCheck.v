(* C15: soundness of the sender half of the trace checker.  Every wire trace that check_sender accepts is an execution of
   the model sender (sendnext / on_reply of model/Sender.v) against the observed reply stream: the print thread's
   transmissions are exactly the ones _sendnext makes after the reader has handled some prefix of the replies observed so
   far, each reply handled at some moment after it was observed. *)
From Coq Require Import ZArith Bool List Lia PeanoNat.
From GS Require Import model.Sender.
Import ListNotations.

Inductive srun (job : list (option nat)) : list event -> (sender nat * nat) -> list reply -> (sender nat * nat) -> Prop :=
| s_done x seen : srun job [] x seen x
| s_handle evs s c seen r x' :                          (* the reader handles the next observed reply *)
    nth_error seen c = Some r -> srun job evs (on_reply nat s r, S c) seen x' -> srun job evs (s, c) seen x'
| s_rx evs x seen r x' :                                (* one more reply is observed *)
    srun job evs x (seen ++ [r]) x' -> srun job (ERx r :: evs) x seen x'
| s_tx evs s c seen s2 p p2 g x' :                      (* the print thread transmits: the next thing _sendnext writes *)
    next_tx job (S (length job)) s = Some (s2, p2) -> payload_eqb p p2 = true ->
    srun job evs (s2, c) seen x' -> srun job (ETx p g :: evs) (s, c) seen x'.

Inductive rhandled (seen : list reply) : (sender nat * nat) -> (sender nat * nat) -> Prop :=
| rh_refl x : rhandled seen x x
| rh_step s c r y : nth_error seen c = Some r -> rhandled seen (on_reply nat s r, S c) y -> rhandled seen (s, c) y.

Lemma srun_after_handled job evs seen x y x' : rhandled seen x y -> srun job evs y seen x' -> srun job evs x seen x'.
Proof. induction 1 as [|s c r y Hn _ IH]; intros H; [exact H|]. eapply s_handle; [exact Hn|]. now apply IH. Qed.

Lemma insert_in x acc y : In y (insert x acc) -> y = x \/ In y acc.
Proof. unfold insert. destruct (existsb _ _); cbn; intuition. Qed.

Lemma skipn_cons_nth {A} (l : list A) c x rest : x :: rest = skipn c l -> nth_error l c = Some x /\ rest = skipn (S c) l.
Proof.
  revert l. induction c as [|c IH]; intros l H; destruct l as [|a l]; cbn in *; try discriminate.
  - injection H as -> ->. auto.
  - now apply IH.
Qed.

Lemma expand_sound job p seen : forall rest s c acc y, rest = skipn c seen ->
  In y (expand job p rest s c acc) ->
  In y acc \/ exists s0 c0 s2 p2, rhandled seen (s, c) (s0, c0) /\ next_tx job (S (length job)) s0 = Some (s2, p2) /\
                                 payload_eqb p p2 = true /\ y = (s2, c0).
Proof.
  induction rest as [|r rest IH]; intros s c acc y Hr; cbn [expand].
  - intros Hin. destruct (next_tx job (S (length job)) s) as [[s2 p2]|] eqn:En; [|now left].
    destruct (payload_eqb p p2) eqn:Ep; [|now left].
    apply insert_in in Hin as [->|Hin]; [|now left]. right. exists s, c, s2, p2. repeat split; auto. constructor.
  - intros Hin. destruct (skipn_cons_nth _ _ _ _ Hr) as [Hnth Hr'].
    apply (IH (on_reply nat s r) (S c) _ y Hr') in Hin. destruct Hin as [Hin|(s0 & c0 & s2 & p2 & Hh & Hn & Hp & Hy)].
    + destruct (next_tx job (S (length job)) s) as [[s2 p2]|] eqn:En; [|now left].
      destruct (payload_eqb p p2) eqn:Ep; [|now left].
      apply insert_in in Hin as [->|Hin]; [|now left]. right. exists s, c, s2, p2. repeat split; auto. constructor.
    + right. exists s0, c0, s2, p2. repeat split; auto. eapply rh_step; [exact Hnth|exact Hh].
Qed.

Lemma fold_expand_sound job p seen : forall states acc0 y,
  In y (fold_left (fun acc x => expand job p (skipn (snd x) seen) (fst x) (snd x) acc) states acc0) ->
  In y acc0 \/ exists x, In x states /\ exists s0 c0 s2 p2, rhandled seen x (s0, c0) /\
     next_tx job (S (length job)) s0 = Some (s2, p2) /\ payload_eqb p p2 = true /\ y = (s2, c0).
Proof.
  induction states as [|x states IH]; intros acc0 y; cbn [fold_left]; [now left|].
  intros Hin. apply IH in Hin. destruct Hin as [Hin|(x1 & Hx1 & H)].
  - apply (expand_sound job p seen _ (fst x) (snd x) acc0 y eq_refl) in Hin.
    destruct Hin as [Hin|(s0 & c0 & s2 & p2 & Hh & Hn & Hp & Hy)]; [now left|].
    right. exists x. split; [now left|]. exists s0, c0, s2, p2. destruct x as [xs xc]. auto.
  - right. exists x1. split; [now right|exact H].
Qed.

Theorem check_sender_sound job : forall evs states seen, check_sender job evs states seen = true ->
  exists x, In x states /\ exists x', srun job evs x seen x'.
Proof.
  induction evs as [|e evs IH]; intros states seen H; cbn [check_sender] in H.
  - destruct states as [|x states]; [discriminate|]. exists x. split; [now left|]. exists x. constructor.
  - destruct e as [p g|r].
    + match type of H with context [fold_left ?f states []] => set (st' := fold_left f states []) in * end.
      destruct st' as [|z zs] eqn:E; [discriminate|]. destruct (IH _ _ H) as (y & Hy & x' & Hrun).
      rewrite <- E in Hy. unfold st' in Hy. apply fold_expand_sound in Hy.
      destruct Hy as [[]|(x & Hx & s0 & c0 & s2 & p2 & Hh & Hn & Hp & ->)].
      exists x. split; [exact Hx|]. exists x'. eapply srun_after_handled; [exact Hh|]. eapply s_tx; eauto.
    + destruct (IH _ _ H) as (x & Hx & x' & Hrun). exists x. split; [exact Hx|]. exists x'. now constructor.
Qed.

(* the whole verdict: the reset comes first, the sender's part of the rest is an execution of the model sender, and the
   replies observed are, in order, a prefix of the model firmware's reactions to the frames observed *)
Theorem check_trace_sound job boot evs acc : check_trace job boot evs = (true, acc) ->
  exists g evs', evs = ETx PReset g :: evs' /\
    (exists x', srun job evs' ({| lineno := 0; resendfrom := -1; qi := 0; clear := false; printing := true; sentl := [] |}, 0%nat) [] x') /\
    is_prefix (rx_of evs) (snd (fw_stream {| expected := boot; accepted := [] |} evs)) = true /\
    acc = accepted nat (fst (fw_stream {| expected := boot; accepted := [] |} evs)).
Proof.
  unfold check_trace. destruct evs as [|[p g|r] evs']; try discriminate. destruct p as [n c|]; try discriminate.
  destruct (fw_stream {| expected := boot; accepted := [] |} (ETx PReset g :: evs')) as [f stream] eqn:Ef.
  intros H. injection H as H <-. apply andb_prop in H as [H1 H2].
  exists g, evs'. split; [reflexivity|]. split; [|split; [exact H2|reflexivity]].
  destruct (check_sender_sound job _ _ _ H1) as (x & [<-|[]] & x' & Hr). eauto.
Qed.
