From Coq Require Import List NArith Bool Lia ZifyBool ZifyN Wf_nat.
From GS Require Import model.JobLines.
Import ListNotations.
Open Scope N_scope.

Lemma close_paren_shorter l r : close_paren l = Some r -> (length r < length l)%nat.
Proof.
  revert r. induction l as [|c l IH]; intros r; cbn; [discriminate|].
  destruct (c =? RP); [intros H; injection H as <-; lia|]. destruct (c =? LP); [discriminate|].
  intros H. specialize (IH _ H). lia.
Qed.
Lemma to_newline_shorter l : (length (to_newline l) <= length l)%nat.
Proof. induction l as [|c l IH]; cbn; [lia|]. destruct (c =? NL); cbn; lia. Qed.
Lemma after_newline_shorter l r : after_newline l = Some r -> (length r < length l)%nat.
Proof.
  revert r. induction l as [|c l IH]; intros r; cbn; [discriminate|].
  destruct (c =? NL); [intros H; injection H as <-; lia|]. intros H. specialize (IH _ H). lia.
Qed.

(* with enough fuel the result does not depend on the fuel: the scan always terminates inside the line *)
Lemma strip_fuel_enough : forall f1 f2 l, (length l <= f1)%nat -> (length l <= f2)%nat -> strip_fuel f1 l = strip_fuel f2 l.
Proof.
  induction f1 as [|f1 IH]; intros f2 l H1 H2.
  - destruct l; [|cbn in H1; lia]. destruct f2; reflexivity.
  - destruct f2 as [|f2]; [destruct l; [reflexivity|cbn in H2; lia]|].
    destruct l as [|c l]; [reflexivity|]. cbn [strip_fuel]. cbn [length] in H1, H2.
    destruct (c =? LP).
    + destruct (close_paren l) as [r|] eqn:E.
      * apply close_paren_shorter in E. apply IH; lia.
      * f_equal. apply IH; lia.
    + destruct (c =? SEMI).
      * pose proof (to_newline_shorter l). apply IH; lia.
      * destruct ((c =? SLASH) || (c =? STAR)).
        -- destruct (after_newline l) as [r|] eqn:E.
           ++ apply after_newline_shorter in E. apply IH; lia.
           ++ f_equal. apply IH; lia.
        -- f_equal. apply IH; lia.
Qed.

Lemma strip_cons_unfold c l : strip_job_comments (c :: l) =
  if c =? LP then match close_paren l with Some r => strip_job_comments r | None => c :: strip_job_comments l end
  else if c =? SEMI then strip_job_comments (to_newline l)
  else if (c =? SLASH) || (c =? STAR)
       then match after_newline l with Some r => strip_job_comments r | None => c :: strip_job_comments l end
  else c :: strip_job_comments l.
Proof.
  unfold strip_job_comments. cbn [length strip_fuel].
  destruct (c =? LP).
  - destruct (close_paren l) as [r|] eqn:E; [|reflexivity].
    apply close_paren_shorter in E. apply strip_fuel_enough; lia.
  - destruct (c =? SEMI).
    + pose proof (to_newline_shorter l). apply strip_fuel_enough; lia.
    + destruct ((c =? SLASH) || (c =? STAR)); [|reflexivity].
      destruct (after_newline l) as [r|] eqn:E; [|reflexivity].
      apply after_newline_shorter in E. apply strip_fuel_enough; lia.
Qed.
Lemma strip_nil : strip_job_comments [] = []. Proof. reflexivity. Qed.

(* a strong induction principle on the length, to follow the scan *)
Lemma strip_ind (P : list N -> Prop) :
  (forall l, (forall l', (length l' < length l)%nat -> P l') -> P l) -> forall l, P l.
Proof.
  intros H l. remember (length l) as n eqn:E. revert l E.
  induction n as [n IH] using lt_wf_ind. intros l ->. apply H. intros l' Hl. eapply IH; [exact Hl|reflexivity].
Qed.

Lemma to_newline_no_nl l : ~ In NL l -> to_newline l = [].
Proof.
  induction l as [|c l IH]; intros H; [reflexivity|]. cbn.
  destruct (N.eqb_spec c NL) as [->|_]; [exfalso; apply H; now left|]. apply IH. intros Hin. apply H. now right.
Qed.
Lemma close_paren_in l r x : close_paren l = Some r -> In x r -> In x l.
Proof.
  revert r. induction l as [|c l IH]; intros r; cbn; [discriminate|].
  destruct (c =? RP); [intros H; injection H as <-; auto|]. destruct (c =? LP); [discriminate|].
  intros H Hin. right. eapply IH; eauto.
Qed.
Lemma after_newline_no_nl l : ~ In NL l -> after_newline l = None.
Proof.
  induction l as [|c l IH]; intros H; [reflexivity|]. cbn.
  destruct (N.eqb_spec c NL) as [->|_]; [exfalso; apply H; now left|]. apply IH. intros Hin. apply H. now right.
Qed.

(* on a line without line breaks no ';' survives: every ;-comment is removed up to the end of the line *)
Theorem no_semicolon_left : forall l, ~ In NL l -> ~ In SEMI (strip_job_comments l).
Proof.
  apply (strip_ind (fun l => ~ In NL l -> ~ In SEMI (strip_job_comments l))).
  intros l IH Hnl. destruct l as [|c l]; [rewrite strip_nil; auto|]. rewrite strip_cons_unfold.
  assert (Hnl' : ~ In NL l) by (intros Hin; apply Hnl; now right).
  destruct (N.eqb_spec c LP) as [->|HLP].
  - destruct (close_paren l) as [r|] eqn:E.
    + apply IH; [apply close_paren_shorter in E; cbn; lia|]. intros Hin. apply Hnl'. eapply close_paren_in; eauto.
    + intros [H|H]; [discriminate H|]. revert H. apply IH; [cbn; lia|exact Hnl'].
  - destruct (N.eqb_spec c SEMI) as [->|HS].
    + rewrite (to_newline_no_nl l Hnl'), strip_nil. auto.
    + destruct ((c =? SLASH) || (c =? STAR)).
      * rewrite (after_newline_no_nl l Hnl'). intros [H|H]; [congruence|]. revert H. apply IH; [cbn; lia|exact Hnl'].
      * intros [H|H]; [congruence|]. revert H. apply IH; [cbn; lia|exact Hnl'].
Qed.

(* on a line with no parenthesis and no line break the regular expression does what the simple reading says:
   it keeps exactly the text before the first ';' *)
Theorem plain_line_before_semi : forall l, ~ In NL l -> ~ In LP l -> strip_job_comments l = before_semi l.
Proof.
  induction l as [|c l IH]; intros Hnl Hlp; [reflexivity|]. rewrite strip_cons_unfold. cbn [before_semi].
  assert (Hnl' : ~ In NL l) by (intros Hin; apply Hnl; now right).
  assert (Hlp' : ~ In LP l) by (intros Hin; apply Hlp; now right).
  destruct (N.eqb_spec c LP) as [->|_]; [exfalso; apply Hlp; now left|].
  destruct (c =? SEMI); [now rewrite (to_newline_no_nl l Hnl'), strip_nil|].
  destruct ((c =? SLASH) || (c =? STAR)); [rewrite (after_newline_no_nl l Hnl')|]; f_equal; now apply IH.
Qed.

(* what is transmitted is never empty and carries no surrounding whitespace *)
Lemma lstrip_head l : match lstrip l with c :: _ => is_ws c = false | [] => True end.
Proof. induction l as [|c l IH]; cbn; [exact I|]. destruct (is_ws c) eqn:E; [exact IH|exact E]. Qed.

Lemma lstrip_idem l : lstrip (lstrip l) = lstrip l.
Proof. pose proof (lstrip_head l) as H. destruct (lstrip l) as [|c r]; [reflexivity|]. cbn. now rewrite H. Qed.

Lemma lstrip_app_keep a c : is_ws c = false -> lstrip (a ++ [c]) = lstrip a ++ [c] \/ (lstrip a = [] /\ lstrip (a ++ [c]) = [c]).
Proof.
  intros Hc. induction a as [|x a IH]; cbn; [rewrite Hc; now right|].
  destruct (is_ws x); [exact IH|left; reflexivity].
Qed.

Theorem job_command_trimmed raw t : job_command raw = Some t ->
  t <> [] /\ (match t with c :: _ => is_ws c = false | [] => True end) /\
  (match rev t with c :: _ => is_ws c = false | [] => True end).
Proof.
  unfold job_command. destruct (is_host_command raw); [discriminate|].
  destruct (strip (strip_job_comments raw)) as [|c r] eqn:E; [discriminate|]. intros H. injection H as <-.
  split; [discriminate|]. unfold strip, rstrip in E. set (m := lstrip (strip_job_comments raw)) in *.
  split.
  - (* head: the last element of lstrip (rev m) reversed ... argue through lstrip_head on m *)
    pose proof (lstrip_head (rev m)) as Hh. destruct (lstrip (rev m)) as [|z zs] eqn:Ez; [cbn in E; discriminate|].
    (* rev (z :: zs) = c :: r, so c is the head of rev zs ++ [z]; it is the head of m unless everything before was stripped *)
    assert (Hm : exists k, rev m = k ++ z :: zs /\ forallb is_ws k = true).
    { clear -Ez. revert Ez. generalize (rev m) as q. induction q as [|x q IH]; cbn; [discriminate|].
      destruct (is_ws x) eqn:Ex.
      - intros H. destruct (IH H) as (k & -> & Hk). exists (x :: k). cbn. now rewrite Ex, Hk.
      - intros H. injection H as <- <-. exists []. auto. }
    destruct Hm as (k & Hk1 & Hk2).
    assert (Em : m = rev zs ++ z :: rev k).
    { rewrite <- (rev_involutive m), Hk1, rev_app_distr. cbn [rev]. now rewrite <- app_assoc. }
    pose proof (lstrip_head (strip_job_comments raw)) as Hm0. fold m in Hm0.
    cbn [rev] in E. rewrite Em in Hm0. destruct (rev zs) as [|y ys] eqn:Er; cbn [app] in *.
    + injection E as <- _. exact Hh.
    + injection E as <- _. exact Hm0.
  - rewrite <- E, rev_involutive. apply lstrip_head.
Qed.
