(* C20, the running total: in absolute extrusion mode, with the bundled extrusion hook as the only
   hook, the remembered E after any history is the E it started from plus
   (nozzle x layer / cross-section) x the XY length of every accepted linear move since. *)
From Coq Require Import ZArith QArith Qround Bool List String Lia Lqa.
From GS Require Import gen.GenTables model.Num model.Builder model.Interp model.InterpParams proofs.Tables
  proofs.FlagsProofs proofs.NumProofs proofs.InterlockProofs proofs.AtomicProofs proofs.BoundsProofs
  proofs.MirrorProofs proofs.TrackProofs proofs.HooksProofs proofs.ParamProofs.
Import ListNotations.
Open Scope string_scope.
Open Scope list_scope.

Local Arguments round_dp : simpl never.
Local Arguments qsqrt : simpl never.
Local Arguments xy_len : simpl never.

Definition e_total (s : st) : Q := match cget "E" (cparams s) with Some e => xq e | None => 0 end.
Definition call_len (c : hookcall) : Q := match c with HookCall _ o t => xy_len o t end.
Fixpoint sum_calls (cs : list hookcall) : Q :=
  match cs with [] => 0 | c :: cs' => call_len c + sum_calls cs' end.
Lemma sum_calls_app a b : (sum_calls (a ++ b) == sum_calls a + sum_calls b)%Q.
Proof. induction a as [|c a IH]; cbn [sum_calls app]; [ring|rewrite IH; ring]. Qed.

(* the hook invocations that belong to accepted calls *)
Definition good_calls (r : res) : list hookcall := match err_of r with None => calls_of r | Some _ => [] end.

Definition extruding (id : nat) (area cross : Q) (s : st) : Prop :=
  hooks s = [HExtrude id area cross] /\ em s = EAbsolute.

Lemma extruding_frame id area cross s s' : hooks s' = hooks s -> em s' = em s -> extruding id area cross s -> extruding id area cross s'.
Proof. unfold extruding. intros -> ->. auto. Qed.

Lemma e_total_same s s' : cparams s' = cparams s -> e_total s' = e_total s.
Proof. unfold e_total. now intros ->. Qed.

Lemma hook_ok2_extrude id area cross : hook_ok2 (HExtrude id area cross). Proof. exact I. Qed.

Lemma do_move_linear_total dp s r mv target ps id area cross : params_ok ps -> extruding id area cross s ->
  let R := do_move dp Linear s r mv target ps in
  err_of R = None ->
  (e_total (st_of R) == e_total s + area * sum_calls (calls_of R) / cross)%Q /\ extruding id area cross (st_of R).
Proof.
  intros Hp [Hh He]. cbn zeta. unfold do_move. rewrite Hh. cbn [run_hooks].
  set (o := resolve (pos s)). set (t := to_absolute s mv).
  set (ps1 := run_hook s (HExtrude id area cross) o t ps qsqrt).
  assert (Hp1 : params_ok ps1) by (apply run_hook_ok; [exact I|exact Hp]).
  pose proof (extrusion_hook_amount s id area cross o t ps) as HE. fold ps1 in HE. rewrite He in HE.
  pose proof (track_frame s ps1) as (Hf & _ & Hcp & _).
  destruct (track s ps1) as [s1 [e1|]]; cbn [fst] in *; [discriminate|].
  destruct (negb _); [discriminate|]. unfold update_axes. destruct (within _ _); [|discriminate].
  intros _. cbn [st_of calls_of]. split.
  - unfold e_total at 1. cbn [written cparams set_haltm set_spos set_pos].
    rewrite (remembered_params s1 r ps1 "E" Hp1 eq_refl), HE. cbn [xq sum_calls call_len].
    unfold e_total. destruct (cget "E" (cparams s)) as [e|].
    + unfold xis_zero. destruct e as [q| | |]; cbn [xq].
      * unfold qeqb. destruct (Qeq_bool q 0) eqn:Eq.
        -- apply Qeq_bool_iff in Eq. unfold qdiv, qmul. rewrite !Qred_correct, Eq. unfold Qdiv. ring.
        -- unfold qadd, qdiv, qmul. rewrite !Qred_correct. unfold Qdiv. ring.
      * unfold qadd, qdiv, qmul. rewrite !Qred_correct. unfold Qdiv. ring.
      * unfold qadd, qdiv, qmul. rewrite !Qred_correct. unfold Qdiv. ring.
      * unfold qadd, qdiv, qmul. rewrite !Qred_correct. unfold Qdiv. ring.
    + unfold qdiv, qmul. rewrite !Qred_correct. unfold Qdiv. ring.
  - destruct Hf as (_ & _ & _ & Hhk & _ & _ & _ & _ & _ & _ & _ & _ & Hem & _). split; cbn; congruence.
Qed.

(* a move that runs no hooks and has no E word of its own: the remembered E stays *)
Lemma do_move_rapid_total dp s r mv target ps id area cross : params_ok ps -> pget "E" ps = None ->
  extruding id area cross s ->
  let R := do_move dp Rapid s r mv target ps in
  clean s R -> e_total (st_of R) = e_total s /\ extruding id area cross (st_of R) /\ calls_of R = [].
Proof.
  intros Hp HE Hx. cbn zeta. unfold do_move.
  pose proof (track_frame s ps) as (Hf & _ & Hcp & _).
  assert (Hx1 : extruding id area cross (fst (track s ps))).
  { destruct Hf as (_ & _ & _ & Hhk & _ & _ & _ & _ & _ & _ & _ & _ & Hem & _). now apply (extruding_frame id area cross s). }
  destruct (track s ps) as [s1 [e1|]]; cbn [fst] in *.
  - intros [HC|[HC _]]; [discriminate|]. cbn [st_of] in *. subst s1. auto.
  - destruct (negb _).
    + intros [HC|[HC _]]; [discriminate|]. cbn [st_of] in *. subst s1. auto.
    + unfold update_axes. destruct (within _ _).
      * intros _. cbn [st_of calls_of]. split; [|split; [|reflexivity]].
        -- unfold e_total. cbn [written cparams set_haltm set_spos set_pos].
           rewrite (remembered_params s1 r ps "E" Hp eq_refl), HE, Hcp. reflexivity.
        -- destruct Hx1 as [A B]. split; cbn; assumption.
      * intros [HC|[HC _]]; [discriminate|]. cbn [st_of] in *. rewrite HC. destruct Hx. repeat split; auto.
Qed.

Lemma do_move_hooks_em dp k s r mv target ps :
  hooks (st_of (do_move dp k s r mv target ps)) = hooks s /\ em (st_of (do_move dp k s r mv target ps)) = em s.
Proof.
  unfold do_move.
  destruct (match k, hooks s with
            | Linear, _ :: _ => run_hooks s (hooks s) (resolve (pos s)) (to_absolute s mv) ps
            | _, _ => (ps, []) end) as [ps1 calls].
  pose proof (track_frame s ps1) as ((_ & _ & _ & Hhk & _ & _ & _ & _ & _ & _ & _ & _ & Hem & _) & _).
  destruct (track s ps1) as [s1 [e1|]]; cbn [fst] in *; [auto|].
  destruct (negb _); [auto|]. unfold update_axes. destruct (within _ _); cbn; auto.
Qed.

Lemma poly_go_total dp ps id area cross : params_ok ps -> forall pts s acc calls,
  extruding id area cross s -> err_of (poly_go dp ps pts s acc calls) = None ->
  exists added, calls_of (poly_go dp ps pts s acc calls) = calls ++ added /\
  (e_total (st_of (poly_go dp ps pts s acc calls)) == e_total s + area * sum_calls added / cross)%Q /\
  extruding id area cross (st_of (poly_go dp ps pts s acc calls)).
Proof.
  intros Hp. induction pts as [|p pts IH]; intros s acc calls Hx; cbn [poly_go].
  - intros _. exists []. cbn [st_of calls_of sum_calls]. rewrite app_nil_r. split; [reflexivity|]. split; [unfold Qdiv; ring|exact Hx].
  - destruct (transform_move s (to_distance_mode s p)) as [mv t].
    match goal with |- context [do_move ?a ?b ?c ?d ?f ?g ?h] =>
      pose proof (do_move_linear_total a c d f g h id area cross Hp Hx) as Hd;
      destruct (do_move a b c d f g h) as [[[s1 ls] cs] e1] end.
    cbn zeta in Hd. cbn [st_of calls_of err_of] in Hd. destruct e1; [discriminate|]. intros He.
    destruct (Hd eq_refl) as [Ht Hx1].
    destruct (IH s1 (acc ++ ls) (calls ++ cs) Hx1 He) as (added & Hc & Ht2 & Hx2).
    exists (cs ++ added). rewrite Hc, app_assoc. split; [reflexivity|]. split; [|exact Hx2].
    rewrite Ht2, Ht, sum_calls_app. unfold Qdiv. ring.
Qed.

(* the calls that leave the running total alone: everything except an explicit E word on a call
   that runs no hook (a rapid, G92, G28, a probe -- the "E reset"), a change of extrusion mode and a
   change of the hook list.  Linear moves may carry any E word: the hook replaces it. *)
Definition e_neutral (c : cmd) : Prop :=
  match c with
  | Move Linear _ _ | MoveAbs Linear _ _ | Polyline _ _ => True
  | Move Rapid _ ps | MoveAbs Rapid _ ps | SetAxis _ ps | Home _ ps | Probe _ _ ps => pget "E" ps = None
  | SetExtrusion _ | AddHook _ | RemoveHook _ => False
  | _ => True
  end.

Lemma step_other_hooks dp s c : other_cmd c -> e_neutral c ->
  calls_of (step1 dp s c) = [] /\ hooks (st_of (step1 dp s c)) = hooks s /\ em (st_of (step1 dp s c)) = em s.
Proof.
  intros Ho Hn. destruct c; try contradiction; cbn [step1].
  - destruct m as [d|]; cbn; auto.
  - destruct (dm s); cbn; auto.
  - destruct (dm s); cbn; auto.
  - destruct (modes s) as [|p rest]; [cbn; auto|]. destruct p, (dm s); cbn; auto.
  - destruct m as [d|]; cbn; auto.
  - destruct m as [d|]; cbn; auto.
  - destruct m as [d|]; cbn; auto.
  - destruct m as [d|]; cbn; auto.
  - destruct m as [d|]; cbn; auto.
  - unfold try_feed. ifs; cbn; auto.
  - unfold try_power. ifs; cbn; auto.
  - ifs; cbn; auto.
  - ifs; cbn; auto.
  - ifs; cbn; auto.
  - ifs; cbn; auto.
  - ifs; cbn; auto.
  - unfold try_power. destruct m as [sm|]; [destruct sm|]; ifs; cbn; auto.
  - cbn; auto.
  - unfold try_power. destruct m as [pm|]; [destruct pm|]; ifs; cbn; auto.
  - cbn; auto.
  - destruct m as [sm|]; [destruct sm|]; ifs; cbn; auto.
  - destruct m as [cm|]; [destruct cm|]; ifs; cbn; auto.
  - cbn; auto.
  - destruct m as [h|]; [|cbn; auto]. unfold halt_cmd, try_halt.
    destruct (match pget "S" ps with Some t => Some t | None => pget "R" ps end); destruct h; ifs; cbn; auto.
  - unfold halt_cmd, try_halt. cbn. destruct reset; cbn; auto.
  - destruct m as [q|]; cbn; auto.
  - cbn; auto.
  - destruct valid_key; cbn; auto.
  - destruct n; cbn; auto; try (destruct slo; cbn; auto; destruct shi; cbn; auto; destruct (qleb _ _); cbn; auto).
    destruct (ge_point lo hi); cbn; auto.
  - cbn; auto.
Qed.

Lemma set_distance_total id area cross s d : extruding id area cross s ->
  extruding id area cross (fst (set_distance s d)) /\ e_total (fst (set_distance s d)) = e_total s.
Proof. intros [A B]. unfold set_distance. cbn. split; [split; assumption|reflexivity]. Qed.

Ltac same_state HC Hx :=
  destruct HC as [HC|[HC _]]; [discriminate HC|]; cbn [st_of fail ok] in HC; rewrite ?HC;
  unfold good_calls; cbn [st_of err_of fail calls_of sum_calls]; split; [unfold Qdiv; ring|exact Hx].

Theorem step_total dp s c id area cross : cmd_ok3 c -> e_neutral c -> extruding id area cross s ->
  clean s (step1 dp s c) ->
  (e_total (st_of (step1 dp s c)) == e_total s + area * sum_calls (good_calls (step1 dp s c)) / cross)%Q /\
  extruding id area cross (st_of (step1 dp s c)).
Proof.
  intros Hc Hn Hx.
  assert (Hother : other_cmd c -> clean s (step1 dp s c) ->
    (e_total (st_of (step1 dp s c)) == e_total s + area * sum_calls (good_calls (step1 dp s c)) / cross)%Q /\
    extruding id area cross (st_of (step1 dp s c))).
  { intros Ho _. destruct (step_other dp s c Ho Hc) as [H1 _]. destruct (step_other_hooks dp s c Ho Hn) as (H2 & H3 & H4).
    unfold good_calls. rewrite H2. rewrite (e_total_same _ _ H1). split.
    - destruct (err_of _); cbn [sum_calls]; unfold Qdiv; ring.
    - now apply (extruding_frame id area cross s). }
  destruct c; try (apply Hother; exact I); clear Hother; cbn [cmd_ok3 e_neutral] in Hc, Hn; cbn [step1].
  - (* Move *) destruct (transform_move s (req_point r)) as [mv t]. destruct k.
    + pose proof (do_move_linear_total dp s r mv t ps id area cross Hc Hx) as Hd. cbn zeta in Hd.
      intros HC. unfold good_calls. destruct (err_of (do_move dp Linear s r mv t ps)) eqn:Ee.
      * destruct HC as [HC|[HC _]]; [congruence|]. rewrite HC. cbn [sum_calls]. split; [unfold Qdiv; ring|exact Hx].
      * exact (Hd eq_refl).
    + intros HC. destruct (do_move_rapid_total dp s r mv t ps id area cross Hc Hn Hx HC) as (A & B & C).
      unfold good_calls. rewrite C, A. split; [destruct (err_of _); cbn [sum_calls]; unfold Qdiv; ring|exact B].
  - (* MoveAbs *)
    assert (Hgen : forall s0 m0, extruding id area cross s0 -> clean s0 (do_move dp k s0 r (req_point r) m0 ps) ->
      (e_total (st_of (do_move dp k s0 r (req_point r) m0 ps)) == e_total s0 + area * sum_calls (good_calls (do_move dp k s0 r (req_point r) m0 ps)) / cross)%Q /\
      extruding id area cross (st_of (do_move dp k s0 r (req_point r) m0 ps))).
    { intros s0 m0 Hx0 HC. destruct k.
      - pose proof (do_move_linear_total dp s0 r (req_point r) m0 ps id area cross Hc Hx0) as Hd. cbn zeta in Hd.
        unfold good_calls. destruct (err_of (do_move dp Linear s0 r (req_point r) m0 ps)) eqn:Ee.
        + destruct HC as [HC|[HC _]]; [congruence|]. rewrite HC. cbn [sum_calls]. split; [unfold Qdiv; ring|exact Hx0].
        + exact (Hd eq_refl).
      - destruct (do_move_rapid_total dp s0 r (req_point r) m0 ps id area cross Hc Hn Hx0 HC) as (A & B & C).
        unfold good_calls. rewrite C, A. split; [destruct (err_of _); cbn [sum_calls]; unfold Qdiv; ring|exact B]. }
    destruct (dm s) eqn:Ed.
    + specialize (Hgen s (replace (pos s) (req_point r)) Hx).
      destruct (do_move dp k s r (req_point r) (replace (pos s) (req_point r)) ps) as [[[s1 ls] cs] e1].
      cbn [app]. exact Hgen.
    + destruct (set_distance_total id area cross s Absolute Hx) as [Hx0 Ht0].
      destruct (set_distance s Absolute) as [s0 l0] eqn:E0. cbn [fst] in *.
      assert (Hpos : pos s0 = pos s) by (unfold set_distance in E0; injection E0 as <- _; reflexivity).
      specialize (Hgen s0 (replace (pos s) (req_point r)) Hx0).
      destruct (do_move dp k s0 r (req_point r) (replace (pos s) (req_point r)) ps) as [[[s1 ls] cs] e1] eqn:Edm.
      intros HC.
      assert (He1 : e1 = None).
      { destruct HC as [HC|[_ HC]]; [|].
        - destruct (set_distance s1 Relative). exact HC.
        - destruct (set_distance s1 Relative). cbn [lines_of] in HC. destruct ls; discriminate HC. }
      subst e1. destruct (Hgen (or_introl eq_refl)) as [A B].
      destruct (set_distance_total id area cross s1 Relative B) as [Hx2 Ht2].
      destruct (set_distance s1 Relative) as [s2 l2]. cbn [fst st_of] in *.
      unfold good_calls in *. cbn [err_of calls_of] in *. rewrite Ht2, A, Ht0. split; [reflexivity|exact Hx2].
  - (* SetAxis *) destruct (negb _); [intros HC; same_state HC Hx|].
    unfold update_axes. destruct (within _ _); cbn [ok fail st_of lines_of err_of].
    + intros _. unfold good_calls. cbn [ok err_of calls_of sum_calls]. split.
      * unfold e_total. cbn [written cparams set_haltm set_spos set_pos].
        rewrite (remembered_params s r ps "E" Hc eq_refl), Hn. unfold Qdiv; ring.
      * destruct Hx as [A B]. split; cbn; assumption.
    + intros HC. same_state HC Hx.
  - (* Home *) destruct (negb _); [intros HC; same_state HC Hx|].
    unfold update_axes. destruct (within _ _); cbn [ok fail st_of lines_of err_of].
    + intros _. unfold good_calls. cbn [ok err_of calls_of sum_calls]. split.
      * unfold e_total. cbn [written cparams set_haltm set_spos set_pos].
        rewrite (remembered_params s r ps "E" Hc eq_refl), Hn. unfold Qdiv; ring.
      * destruct Hx as [A B]. split; cbn; assumption.
    + intros HC. same_state HC Hx.
  - (* Probe *) destruct m as [pm|]; [|intros HC; same_state HC Hx].
    destruct (transform_move s (req_point r)) as [mv t].
    destruct (negb (within _ _)); [intros HC; same_state HC Hx|].
    destruct (negb (req_finite r && params_finite ps)); [intros HC; same_state HC Hx|].
    unfold update_axes. destruct (within _ _); [|intros HC; same_state HC Hx].
    match goal with |- context [track ?a ?b] => set (s1 := a) end.
    pose proof (track_frame s1 ps) as ((_ & _ & _ & Hhk & _ & _ & _ & _ & _ & _ & _ & _ & Hem & _) & _ & Hcp & _).
    destruct (track s1 ps) as [s2 [e1|]] eqn:Et; cbn [fst] in *.
    + intros HC. same_state HC Hx.
    + intros _. unfold good_calls. cbn [ok err_of calls_of sum_calls st_of]. split.
      * unfold e_total. cbn [written cparams set_haltm]. rewrite Hcp. unfold s1. cbn [cparams set_spos set_pos].
        rewrite (remembered_params s r ps "E" Hc eq_refl), Hn. unfold Qdiv; ring.
      * destruct Hx as [A B]. split; cbn [written hooks em set_haltm]; [rewrite Hhk|rewrite Hem]; unfold s1; cbn; assumption.
  - (* Polyline *) intros HC. unfold good_calls. destruct (err_of (poly_go dp ps pts s [] [])) eqn:Ee.
    + destruct HC as [HC|[HC _]]; [congruence|]. rewrite HC. cbn [sum_calls]. split; [unfold Qdiv; ring|exact Hx].
    + destruct (poly_go_total dp ps id area cross Hc pts s [] [] Hx Ee) as (added & H1 & H2 & H3).
      rewrite H1. cbn [app]. split; assumption.
Qed.

Definition all_good_calls (rs : list res) : list hookcall := List.concat (map good_calls rs).

Lemma run_cons dp s c cs : run dp s (c :: cs) = step1 dp s c :: run dp (st_of (step1 dp s c)) cs.
Proof. cbn [run]. destruct (step1 dp s c) as [[[s' ls] calls] e]. reflexivity. Qed.

Theorem history_total dp id area cross cs : forall s, Forall cmd_ok3 cs -> Forall e_neutral cs ->
  extruding id area cross s -> clean_run dp s cs ->
  (e_total (final dp s cs) == e_total s + area * sum_calls (all_good_calls (run dp s cs)) / cross)%Q /\
  extruding id area cross (final dp s cs).
Proof.
  induction cs as [|c cs IH]; intros s Hc Hn Hx Hr.
  - cbn. split; [unfold Qdiv; ring|exact Hx].
  - inversion Hc as [|? ? H1 H2]; subst. inversion Hn as [|? ? N1 N2]; subst. destruct Hr as [Hcl Hr].
    destruct (step_total dp s c id area cross H1 N1 Hx Hcl) as [A B].
    rewrite final_cons, run_cons.
    destruct (IH (st_of (step1 dp s c)) H2 N2 B Hr) as [A2 B2]. split; [|exact B2].
    unfold all_good_calls in *. cbn [map List.concat]. rewrite A2, A, sum_calls_app. unfold Qdiv. ring.
Qed.

Lemma set_axis_resets dp s r ps v : params_ok ps -> pget "E" ps = Some v ->
  err_of (step1 dp s (SetAxis r ps)) = None -> e_total (st_of (step1 dp s (SetAxis r ps))) = xq v.
Proof.
  intros Hp HE. cbn [step1]. destruct (negb _); [discriminate|]. unfold update_axes.
  destruct (within _ _); [|discriminate]. intros _. cbn [ok st_of]. unfold e_total.
  cbn [written cparams set_haltm set_spos set_pos]. now rewrite (remembered_params s r ps "E" Hp eq_refl), HE.
Qed.
