(* C12: the resolution filter under the standard model of floating-point arithmetic.
   [fmask] is the filter as the implementation runs it: every subtraction `remaining -= distance` is followed by a
   rounding rnd, and the threshold is a rounded resolution / 10.  If rnd has relative error at most u (|rnd x - x| <= u |x|:
   round-to-nearest without underflow, u = 2^-53 in binary64) and no accumulation window is longer than K subtractions,
   the run is one of the runs [rmask res delta] covered by filter_bounds_robust, with delta = (2 K + 1) u res. *)
From Coq Require Import QArith Qabs List Bool Lia Lqa.
From GS Require Import gen.GenTables model.TracerQ proofs.TracerQProofs proofs.TracerRobust.
Import ListNotations.
Open Scope Q_scope.

Section FloatFilter.
  Variable rnd : Q -> Q.
  Variable u : Q.
  Hypothesis u_nonneg : 0 <= u.
  Hypothesis rnd_ok : forall x, Qabs (rnd x - x) <= u * Qabs x.

  Fixpoint fmask (res that rem : Q) (ds : list Q) : list bool :=
    match ds with
    | [] => []
    | [_] => [true]
    | d :: ds' =>
        let r := rnd (rem - d) in
        if Qlt_le_dec r that then true :: fmask res that res ds' else false :: fmask res that r ds'
    end.

  (* no window of more than K subtractions: at most K - 1 consecutive dropped samples; k counts those so far *)
  Fixpoint windows_le (K k : nat) (m : list bool) : Prop :=
    match m with
    | [] => True
    | true :: m' => windows_le K 0 m'
    | false :: m' => (S k < K)%nat /\ windows_le K (S k) m'
    end.

  Lemma abs_le a b : Qabs a <= b <-> - b <= a /\ a <= b.
  Proof. apply Qabs_Qle_condition. Qed.

  Theorem fmask_is_rmask res that K : 0 < res -> 2 * inject_Z (Z.of_nat K) * u <= 1 # 20 ->
    Qabs (that - res / filter_tolerance_div) <= u * res ->
    let delta := (2 * inject_Z (Z.of_nat K) + 1) * (u * res) in
    forall ds rem frem k, Forall (fun d => 0 <= d /\ d <= res) ds ->
    rem <= res -> 0 <= rem ->
    Qabs (frem - rem) <= 2 * inject_Z (Z.of_nat k) * (u * res) -> (k < K)%nat \/ ds = [] \/ (exists d, ds = [d]) ->
    windows_le K k (fmask res that frem ds) ->
    rmask res delta rem ds (fmask res that frem ds).
  Proof.
    intros Hres HK Hth delta.
    assert (H10 : res / filter_tolerance_div == (1 # 10) * res) by (unfold filter_tolerance_div; field).
    set (Kq := inject_Z (Z.of_nat K)) in *.
    assert (HKn : 0 <= Kq) by (unfold Kq; change 0 with (inject_Z 0); rewrite <- Zle_Qle; lia).
    set (ur := u * res) in *.
    assert (Hur : 0 <= ur) by (unfold ur; nra).
    assert (HKur : 2 * Kq * ur <= (1 # 20) * res).
    { unfold ur. setoid_replace (2 * Kq * (u * res)) with ((2 * Kq * u) * res) by ring. nra. }
    rewrite H10 in Hth. apply abs_le in Hth.
    induction ds as [|d ds IH]; intros rem frem k Hd Hr1 Hr2 He Hk Hw; [constructor|].
    destruct ds as [|d2 ds]; [constructor|].
    inversion Hd as [|? ? [Hd0 Hd1] Hd']; subst.
    cbn [fmask] in *. set (x := frem - d) in *. set (r := rnd x) in *.
    assert (HkK : (k < K)%nat) by (destruct Hk as [H|[H|[d' H]]]; [exact H|discriminate|discriminate]).
    set (kq := inject_Z (Z.of_nat k)) in *.
    assert (Hkq : 0 <= kq) by (unfold kq; change 0 with (inject_Z 0); rewrite <- Zle_Qle; lia).
    assert (HkKq : kq + 1 <= Kq).
    { unfold kq, Kq. change 1 with (inject_Z 1). rewrite <- inject_Z_plus, <- Zle_Qle. lia. }
    assert (Hk1 : (kq + 1) * ur <= Kq * ur) by nra.
    assert (Hk0 : 0 <= kq * ur) by nra.
    assert (Hur1 : ur <= Kq * ur) by nra.
    apply abs_le in He.
    assert (Hx : Qabs x <= 2 * res) by (apply abs_le; unfold x; split; nra).
    pose proof (rnd_ok x) as Hrx. fold r in Hrx.
    assert (Hrx2 : Qabs (r - x) <= 2 * ur).
    { eapply Qle_trans; [exact Hrx|]. unfold ur. setoid_replace (2 * (u * res)) with (u * (2 * res)) by ring.
      apply Qmult_le_l_nonneg; [exact Hx|exact u_nonneg] || nra. }
    apply abs_le in Hrx2.
    assert (Herr : - (2 * (kq + 1) * ur) <= r - (rem - d) /\ r - (rem - d) <= 2 * (kq + 1) * ur) by (unfold x in *; split; nra).
    destruct Herr as [Hel Heh].
    destruct (Qlt_le_dec r that) as [Hlt|Hge].
    - apply rm_keep.
      + rewrite H10. unfold delta. nra.
      + apply (IH res res 0%nat Hd'); try lra.
        * apply abs_le. change (inject_Z (Z.of_nat 0)) with 0. split; nra.
        * left. lia.
        * exact Hw.
    - destruct Hw as [Hk2 Hw]. apply rm_drop.
      + rewrite H10. unfold delta. nra.
      + apply (IH (rem - d) r (S k) Hd'); try lra.
        * apply abs_le. rewrite Nat2Z.inj_succ. unfold Z.succ. rewrite inject_Z_plus. change (inject_Z 1) with 1. fold kq. split; nra.
        * left. exact Hk2.
        * exact Hw.
  Qed.
End FloatFilter.

(* from the start of a path, and straight to the bounds *)
Theorem float_filter_bounds rnd u res that K dmax ds : 0 <= u -> (forall x, Qabs (rnd x - x) <= u * Qabs x) ->
  0 < res -> (0 < K)%nat -> 2 * inject_Z (Z.of_nat K) * u <= 1 # 20 ->
  Qabs (that - res / filter_tolerance_div) <= u * res ->
  Forall (fun d => 0 <= d /\ d <= dmax) ds -> dmax <= res -> ds <> [] ->
  windows_le K 0 (fmask rnd res that res ds) ->
  let delta := (2 * inject_Z (Z.of_nat K) + 1) * (u * res) in
  let S := seg_loop 0 (fmask rnd res that res ds) ds in
  Forall (fun T => T <= (9 # 10) * res + delta + dmax) S /\
  all_but_last (fun T => (9 # 10) * res - delta < T) S /\
  qsum S == qsum ds.
Proof.
  intros Hu Hr Hres HK HKu Hth Hd Hdm Hne Hw. cbn zeta.
  assert (Hd2 : Forall (fun d => 0 <= d /\ d <= res) ds).
  { eapply Forall_impl; [|exact Hd]. cbn. intros a [A B]. split; lra. }
  assert (Hdel : 0 <= (2 * inject_Z (Z.of_nat K) + 1) * (u * res)).
  { assert (0 <= inject_Z (Z.of_nat K)) by (change 0 with (inject_Z 0); rewrite <- Zle_Qle; lia). assert (0 <= u * res) by nra. nra. }
  apply filter_bounds_robust; try assumption.
  apply (fmask_is_rmask rnd u Hu Hr res that K Hres HKu Hth ds res res 0%nat Hd2); try lra.
  - apply Qabs_Qle_condition. change (inject_Z (Z.of_nat 0)) with 0. split; lra.
  - left. exact HK.
  - exact Hw.
Qed.

(* exact arithmetic is the case rnd = identity, u = 0 *)
Lemma fmask_exact res : forall ds rem, fmask (fun x => x) res (res / filter_tolerance_div) rem ds = mask_loop res rem ds.
Proof.
  induction ds as [|d ds IH]; intros rem; [reflexivity|]. cbn [fmask mask_loop]. destruct ds as [|d2 ds]; [reflexivity|].
  destruct (Qlt_le_dec (rem - d) (res / filter_tolerance_div)); now rewrite IH.
Qed.

(* how long an accumulation window can be: for the exact filter, when every distance is at least dmin and K dmin exceeds
   0.9 res no window has K subtractions -- e.g. constant-speed sampling every res/10 .. res/9 (C12_sampling) gives K = 10 *)
Lemma exact_windows res dmin K : 0 < res -> 0 < dmin -> (9 # 10) * res < inject_Z (Z.of_nat K) * dmin ->
  forall ds rem k, Forall (fun d => dmin <= d) ds -> rem <= res - inject_Z (Z.of_nat k) * dmin ->
  windows_le K k (mask_loop res rem ds).
Proof.
  intros Hres Hdm HK.
  assert (H10 : res / filter_tolerance_div == (1 # 10) * res) by (unfold filter_tolerance_div; field).
  induction ds as [|d ds IH]; intros rem k Hd Hrem; [exact I|].
  cbn [mask_loop]. destruct ds as [|d2 ds]; [cbn; exact I|].
  inversion Hd as [|? ? Hd1 Hd']; subst.
  destruct (Qlt_le_dec (rem - d) (res / filter_tolerance_div)) as [Hlt|Hge]; cbn [windows_le].
  - apply (IH res 0%nat Hd'). change (inject_Z (Z.of_nat 0)) with 0. lra.
  - assert (Hk1 : inject_Z (Z.of_nat (S k)) == inject_Z (Z.of_nat k) + 1).
    { rewrite Nat2Z.inj_succ. unfold Z.succ. rewrite inject_Z_plus. reflexivity. }
    split.
    + (* (k + 1) dmin <= 0.9 res < K dmin *)
      rewrite H10 in Hge.
      assert (Hb : (inject_Z (Z.of_nat k) + 1) * dmin < inject_Z (Z.of_nat K) * dmin) by nra.
      assert (Hc : inject_Z (Z.of_nat k) + 1 < inject_Z (Z.of_nat K)) by nra.
      change 1 with (inject_Z 1) in Hc. rewrite <- inject_Z_plus, <- Zlt_Qlt in Hc. lia.
    + apply (IH (rem - d) (S k) Hd'). rewrite Hk1. nra.
Qed.

Corollary exact_windows_top res dmin K : 0 < res -> 0 < dmin -> (9 # 10) * res < inject_Z (Z.of_nat K) * dmin ->
  forall ds, Forall (fun d => dmin <= d) ds -> windows_le K 0 (mask_loop res res ds).
Proof.
  intros H1 H2 H3 ds Hd. apply (exact_windows res dmin K H1 H2 H3 ds res 0%nat Hd).
  change (inject_Z (Z.of_nat 0)) with 0. ring_simplify. apply Qle_refl.
Qed.
