(* Classification of the regenerated instruction table (gen/GenTables.v).
   Every lemma here is closed by computation over the table regenerated from the live
   repository: when the code maps an enum member to a different instruction the lemma
   stops computing and every property that relies on it breaks. *)
From Coq Require Import ZArith QArith Bool List String.
From GS Require Import gen.GenTables model.Num model.Builder model.Interp.
Import ListNotations.
Open Scope string_scope.

Definition W (l : string) (n : Z) : word := (l, inject_Z n).

Lemma i_move_linear : i_move Linear = W "G" 1. Proof. vm_compute. reflexivity. Qed.
Lemma i_move_rapid : i_move Rapid = W "G" 0. Proof. vm_compute. reflexivity. Qed.
Lemma i_offset_eq : i_offset = W "G" 92. Proof. vm_compute. reflexivity. Qed.
Lemma i_home_eq : i_home = W "G" 28. Proof. vm_compute. reflexivity. Qed.
Lemma i_probe_g : forall p, fst (i_probe p) = "G" /\ (38 < snd (i_probe p) < 39)%Q.
Proof. destruct p; vm_compute; repeat split; discriminate || reflexivity. Qed.
Lemma i_units_g : forall u, i_units u = W "G" (match u with Inches => 20 | Millimeters => 21 end).
Proof. destruct u; vm_compute; reflexivity. Qed.
Lemma i_dmode_g : forall d, i_dmode d = W "G" (match d with Absolute => 90 | Relative => 91 end).
Proof. destruct d; vm_compute; reflexivity. Qed.
Lemma i_emode_m : forall d, i_emode d = W "M" (match d with EAbsolute => 82 | ERelative => 83 end).
Proof. destruct d; vm_compute; reflexivity. Qed.
Lemma i_fmode_g : forall d, i_fmode d = W "G" (match d with InvTime => 93 | PerMinute => 94 | PerRev => 95 end).
Proof. destruct d; vm_compute; reflexivity. Qed.
Lemma i_spin_m : forall s, i_spin s = W "M" (match s with SpinCW => 3 | SpinCCW => 4 | SpinOff => 5 end).
Proof. destruct s; vm_compute; reflexivity. Qed.
Lemma i_power_m : forall s, i_power s = W "M" (match s with PowConst => 3 | PowDyn => 4 | PowOff => 5 end).
Proof. destruct s; vm_compute; reflexivity. Qed.
Lemma i_swap_m : forall s, s <> SwapOff -> i_swap s = W "M" 6.
Proof. destruct s; intros H; try congruence; vm_compute; reflexivity. Qed.
Lemma i_coolant_m : forall s, i_coolant s = W "M" (match s with CoolMist => 7 | CoolFlood => 8 | CoolOff => 9 end).
Proof. destruct s; vm_compute; reflexivity. Qed.
Lemma i_fan_m : forall b, i_fan b = W "M" 106. Proof. destruct b; vm_compute; reflexivity. Qed.
Lemma i_bed_m : forall k, i_bed k = W "M" 140. Proof. destruct k; vm_compute; reflexivity. Qed.
Lemma i_hotend_m : forall k, i_hotend k = W "M" 104. Proof. destruct k; vm_compute; reflexivity. Qed.
Lemma i_chamber_m : forall k, i_chamber k = W "M" 141. Proof. destruct k; vm_compute; reflexivity. Qed.
Lemma i_plane_g : forall p, i_plane p = W "G" (match p with XY => 17 | ZX => 18 | YZ => 19 end).
Proof. destruct p; vm_compute; reflexivity. Qed.
Lemma i_sleep_g : forall t, i_sleep t = W "G" 4. Proof. destruct t; vm_compute; reflexivity. Qed.
Lemma i_query_m : forall q, i_query q = W "M" (match q with QPosition => 114 | QTemperature => 105 end).
Proof. destruct q; vm_compute; reflexivity. Qed.
Definition halt_code (h : halt) : Z :=
  match h with HaltOff => -1 | HPause => 0 | HOptPause => 1 | HEnd => 2 | HEndReset => 30 | HPallet => 60
  | HWaitBed => 190 | HWaitHotend => 109 | HWaitChamber => 191 | HWaitMotion => 400 end.
Lemma i_halt_m : forall h, h <> HaltOff -> i_halt h = W "M" (halt_code h).
Proof. destruct h; intros H; try congruence; vm_compute; reflexivity. Qed.

(* the halt words of the table are exactly the interpreter's halt codes *)
Lemma halt_codes_table : forall h, h <> HaltOff -> In (halt_code h) halt_codes.
Proof. destruct h; intros H; try congruence; vm_compute; tauto. Qed.

(* the probe words are strictly between G38 and G39: none of the modal G codes *)
Lemma probe_isq : forall p n, In n [0; 1; 90; 91; 93; 94; 95; 20; 21; 17; 18; 19; 92; 28]%Z ->
  isq n (Some (snd (i_probe p))) = false.
Proof.
  intros p n H. cbn in H.
  destruct p; repeat (destruct H as [<-|H]; [vm_compute; reflexivity|]); contradiction.
Qed.
Lemma probe_is_probe : forall p, is_probe_q (Some (snd (i_probe p))) = true.
Proof. destruct p; vm_compute; reflexivity. Qed.

(* the defaults of a fresh GState, as regenerated from the live package *)
Lemma defaults_ok : state_defaults =
  [("spin_mode", "OFF"); ("power_mode", "OFF"); ("distance_mode", "ABSOLUTE"); ("extrusion_mode", "ABSOLUTE");
   ("coolant_mode", "OFF"); ("feed_mode", "UNITS_PER_MINUTE"); ("halt_mode", "OFF");
   ("length_units", "MILLIMETERS"); ("time_units", "SECONDS"); ("temperature_units", "CELSIUS");
   ("plane", "XY"); ("direction", "CLOCKWISE"); ("tool_swap_mode", "OFF")]
  /\ default_tool_number = 0%Z /\ default_tool_power = 0%Q /\ default_feed_rate = 0%Q
  /\ default_tool_active = false /\ default_coolant_active = false.
Proof. vm_compute. repeat split. Qed.
