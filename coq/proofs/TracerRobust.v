(* C12: the resolution filter under inexact arithmetic.  The implementation tracks `remaining` in binary64; here every
   comparison `remaining < tolerance` may be decided either way whenever the exact value is within delta of the
   threshold (delta bounds the accumulated rounding error of one accumulation window).  The bounds of C12_filter hold
   with delta of slack, for every such run. *)
From Coq Require Import ZArith QArith Qround Bool List Lia Lqa.
From GS Require Import gen.GenTables model.TracerQ proofs.TracerQProofs.
Import ListNotations.
Open Scope Q_scope.

Inductive rmask (res delta : Q) : Q -> list Q -> list bool -> Prop :=
| rm_nil rem : rmask res delta rem [] []
| rm_last rem d : rmask res delta rem [d] [true]
| rm_keep rem d d2 ds m : rem - d < res / filter_tolerance_div + delta ->
    rmask res delta res (d2 :: ds) m -> rmask res delta rem (d :: d2 :: ds) (true :: m)
| rm_drop rem d d2 ds m : res / filter_tolerance_div - delta <= rem - d ->
    rmask res delta (rem - d) (d2 :: ds) m -> rmask res delta rem (d :: d2 :: ds) (false :: m).

(* the exact filter is one of these runs, with delta = 0 *)
Lemma exact_is_rmask res : forall ds rem, rmask res 0 rem ds (mask_loop res rem ds).
Proof.
  induction ds as [|d ds IH]; intros rem; [constructor|]. cbn [mask_loop]. destruct ds as [|d2 ds]; [constructor|].
  destruct (Qlt_le_dec (rem - d) (res / filter_tolerance_div)) as [H|H].
  - apply rm_keep; [lra|apply IH].
  - apply rm_drop; [lra|apply IH].
Qed.

Lemma rseg_spec res delta dmax : 0 < res -> 0 <= delta -> forall ds m acc rem,
  rmask res delta rem ds m -> rem == res - acc -> 0 <= acc -> acc <= (9 # 10) * res + delta ->
  Forall (fun d => 0 <= d /\ d <= dmax) ds -> ds <> [] ->
  let S := seg_loop acc m ds in
  Forall (fun T => T <= (9 # 10) * res + delta + dmax) S /\
  all_but_last (fun T => (9 # 10) * res - delta < T) S /\
  qsum S == acc + qsum ds /\ S <> [].
Proof.
  intros Hres Hdel ds m acc rem Hm. revert acc.
  assert (H10 : res / filter_tolerance_div == (1 # 10) * res) by (unfold filter_tolerance_div; field).
  induction Hm as [rem|rem d|rem d d2 ds m Hlt Hm IH|rem d d2 ds m Hge Hm IH]; intros acc Hrem Ha0 Ha Hd Hne; [congruence| | |].
  - inversion Hd as [|? ? [Hd0 Hdm] _]; subst. cbn. repeat split; try (constructor; [lra|constructor]); try lra; try discriminate.
  - inversion Hd as [|? ? [Hd0 Hdm] Hd']; subst. cbn [seg_loop].
    destruct (IH 0 ltac:(lra) ltac:(lra) ltac:(lra) Hd' ltac:(discriminate)) as (A & B & C0 & D).
    cbn zeta in A, B, C0, D. set (S := seg_loop 0 m (d2 :: ds)) in *.
    repeat split.
    + constructor; [lra|exact A].
    + destruct S as [|s S']; [congruence|]. cbn [all_but_last]. split; [rewrite H10 in Hlt; lra|exact B].
    + cbn [qsum]. rewrite C0. cbn [qsum]. ring.
    + discriminate.
  - inversion Hd as [|? ? [Hd0 Hdm] Hd']; subst. cbn [seg_loop].
    destruct (IH (acc + d) ltac:(lra) ltac:(lra) ltac:(rewrite H10 in Hge; lra) Hd' ltac:(discriminate)) as (A & B & C0 & D).
    cbn zeta in A, B, C0, D. repeat split; auto. rewrite C0. cbn [qsum]. ring.
Qed.

(* ROBUST FILTER: for every list of sample distances and every run of the filter whose comparisons are decided correctly
   up to delta: no emitted segment travels more than 0.9 res + dmax + delta, every emitted segment but the last travels
   more than 0.9 res - delta, and the lengths still add up to the sampled path *)
Theorem filter_bounds_robust res delta dmax ds m : 0 < res -> 0 <= delta ->
  rmask res delta res ds m -> Forall (fun d => 0 <= d /\ d <= dmax) ds -> ds <> [] ->
  let S := seg_loop 0 m ds in
  Forall (fun T => T <= (9 # 10) * res + delta + dmax) S /\
  all_but_last (fun T => (9 # 10) * res - delta < T) S /\
  qsum S == qsum ds.
Proof.
  intros Hres Hdel Hm Hd Hne. cbn zeta.
  destruct (rseg_spec res delta dmax Hres Hdel ds m 0 res Hm ltac:(lra) ltac:(lra) ltac:(lra) Hd Hne) as (A & B & C0 & _).
  cbn zeta in *. repeat split; auto. rewrite C0. ring.
Qed.
