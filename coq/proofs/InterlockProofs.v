(* When interlock exceptions are raised (C02, second half). *)
From Coq Require Import ZArith QArith Bool List String Lia.
From GS Require Import gen.GenTables model.Num model.Builder model.Interp proofs.Tables proofs.FlagsProofs.
Import ListNotations.
Open Scope string_scope.
Open Scope list_scope.

Definition unchanged (s : st) (r : res) : Prop := st_of r = s /\ lines_of r = [].

(* the documented interlocks fire, from every state *)
Lemma tool_on_raises dp s sm x : tool_on s = true -> sm <> SpinOff ->
  err_of (step1 dp s (ToolOn (Member sm) x)) = Some ToolStateErr /\ unchanged s (step1 dp s (ToolOn (Member sm) x)).
Proof. intros H Hne. destruct sm; try congruence; cbn; rewrite H; repeat split. Qed.

Lemma power_on_raises dp s pm x : tool_on s = true -> pm <> PowOff ->
  err_of (step1 dp s (PowerOn (Member pm) x)) = Some ToolStateErr /\ unchanged s (step1 dp s (PowerOn (Member pm) x)).
Proof. intros H Hne. destruct pm; try congruence; cbn; rewrite H; repeat split. Qed.

Lemma coolant_on_raises dp s cm : cool_on s = true -> cm <> CoolOff ->
  err_of (step1 dp s (CoolantOn (Member cm))) = Some CoolantStateErr /\ unchanged s (step1 dp s (CoolantOn (Member cm))).
Proof. intros H Hne. destruct cm; try congruence; cbn; rewrite H; repeat split. Qed.

Lemma tool_change_raises dp s sm n : sm <> SwapOff ->
  in_range (b_toolnum (bnd s)) (Fin (inject_Z n)) = true -> (1 <= n)%Z ->
  (tool_on s = true -> err_of (step1 dp s (ToolChange (Member sm) n)) = Some ToolStateErr) /\
  (tool_on s = false -> cool_on s = true ->
     err_of (step1 dp s (ToolChange (Member sm) n)) = Some CoolantStateErr) /\
  (tool_on s = true \/ cool_on s = true -> unchanged s (step1 dp s (ToolChange (Member sm) n))).
Proof.
  intros Hne Hb Hn. assert (Hlt : (n <? 1)%Z = false) by (apply Z.ltb_ge; lia).
  destruct sm; try congruence; cbn; rewrite Hb, Hlt; cbn;
    destruct (tool_on s), (cool_on s); repeat split; intuition congruence.
Qed.

Lemma halt_raises dp s h ps : h <> HaltOff ->
  (tool_on s = true -> err_of (step1 dp s (Halt (Member h) ps)) = Some ToolStateErr) /\
  (tool_on s = false -> cool_on s = true -> err_of (step1 dp s (Halt (Member h) ps)) = Some CoolantStateErr) /\
  (tool_on s = true \/ cool_on s = true -> unchanged s (step1 dp s (Halt (Member h) ps))).
Proof.
  intros Hne. destruct h; try congruence; cbn; unfold halt_cmd, try_halt;
    destruct (tool_on s), (cool_on s); cbn; repeat split; intuition congruence.
Qed.

(* conversely: an interlock exception means the documented condition held *)
Lemma track_err s ps e : snd (track s ps) = Some e -> e = ValueErr.
Proof.
  unfold track, try_feed, try_power.
  destruct (pget "F" ps); destruct (pget "S" ps);
    repeat match goal with |- context [if ?b then _ else _] => destruct b end; cbn; congruence.
Qed.

Lemma do_move_err dp k s r mv t ps e : err_of (do_move dp k s r mv t ps) = Some e -> e = ValueErr.
Proof.
  unfold do_move.
  destruct (match k, hooks s with
            | Linear, _ :: _ => run_hooks s (hooks s) (resolve (pos s)) (to_absolute s mv) ps
            | _, _ => (ps, []) end) as [ps1 calls].
  pose proof (track_err s ps1) as Ht. destruct (track s ps1) as [s1 [e1|]]; cbn in *.
  - intros H. injection H as <-. now apply Ht.
  - destruct (negb _); cbn; [congruence|]. destruct (update_axes _ _ _ _); cbn; congruence.
Qed.

Lemma halt_cmd_err dp s h ps e : err_of (halt_cmd dp s h ps) = Some e ->
  (e = ToolStateErr /\ tool_on s = true) \/ (e = CoolantStateErr /\ cool_on s = true /\ tool_on s = false)
  \/ e = ValueErr.
Proof.
  unfold halt_cmd, try_halt. destruct (tool_on s); [cbn; intros H; injection H as <-; auto|].
  destruct (cool_on s); [cbn; intros H; injection H as <-; auto|].
  destruct (match pget "S" ps with Some t => Some t | None => pget "R" ps end); cbn;
    destruct h; cbn;
    repeat match goal with |- context [if ?b then _ else _] => destruct b end; cbn;
    intros H; try discriminate; injection H as <-; auto.
Qed.

Lemma polyline_err dp ps : forall pts s acc calls e,
  err_of (poly_go dp ps pts s acc calls) = Some e -> e = ValueErr.
Proof.
  induction pts as [|p pts IH]; intros s acc calls e; cbn [poly_go]; [cbn; congruence|].
  destruct (transform_move s (to_distance_mode s p)) as [mv target].
  match goal with |- context [do_move ?a ?b ?c ?d ?f ?g ?h] =>
    pose proof (do_move_err a b c d f g h) as Hd; destruct (do_move a b c d f g h) as [[[s1 ls] cs] e1] end.
  destruct e1 as [e1|]; [cbn in *; intros H; injection H as <-; now apply Hd|]. apply IH.
Qed.

Definition interlock_cmd_tool (c : cmd) : Prop :=
  match c with ToolOn _ _ | PowerOn _ _ | ToolChange _ _ | Halt _ _ => True | _ => False end.
Definition interlock_cmd_cool (c : cmd) : Prop :=
  match c with CoolantOn _ | ToolChange _ _ | Halt _ _ => True | _ => False end.

Definition ow (s : st) (c : cmd) (eo : option err) : Prop :=
  match eo with
  | None | Some ValueErr => True
  | Some ToolStateErr => tool_on s = true /\ interlock_cmd_tool c
  | Some CoolantStateErr => cool_on s = true /\ interlock_cmd_cool c
  | Some _ => False
  end.
Definition only_value (eo : option err) : Prop :=
  match eo with None | Some ValueErr => True | _ => False end.
Lemma only_value_ow s c eo : only_value eo -> ow s c eo.
Proof. destruct eo as [[]|]; cbn; tauto. Qed.

Lemma track_only s ps : only_value (snd (track s ps)).
Proof.
  pose proof (track_err s ps) as H. destruct (snd (track s ps)) as [e|]; [|exact I].
  rewrite (H e eq_refl). exact I.
Qed.

Lemma do_move_only dp k s r mv t ps : only_value (err_of (do_move dp k s r mv t ps)).
Proof.
  pose proof (do_move_err dp k s r mv t ps) as H.
  destruct (err_of (do_move dp k s r mv t ps)) as [e|]; [|exact I]. rewrite (H e eq_refl). exact I.
Qed.

Lemma polyline_only dp s pts ps : only_value (err_of (step1 dp s (Polyline pts ps))).
Proof.
  cbn [step1]. pose proof (polyline_err dp ps pts s [] []) as H.
  destruct (err_of (poly_go dp ps pts s [] [])) as [e|]; [|exact I]. rewrite (H e eq_refl). exact I.
Qed.

Lemma halt_cmd_ow dp s h ps c : interlock_cmd_tool c -> interlock_cmd_cool c ->
  ow s c (err_of (halt_cmd dp s h ps)).
Proof.
  intros H1 H2. pose proof (halt_cmd_err dp s h ps) as H.
  destruct (err_of (halt_cmd dp s h ps)) as [e|]; [|exact I].
  destruct (H e eq_refl) as [[-> Ht]|[[-> [Hc _]]| ->]]; cbn; auto.
Qed.

Ltac ifs := repeat match goal with |- context [if ?b then _ else _] => destruct b eqn:? end.

Lemma ow_motion dp s c : match c with Move _ _ _ | MoveAbs _ _ _ | SetAxis _ _ | Home _ _ | Probe _ _ _
                                     | Polyline _ _ => True | _ => False end ->
  ow s c (err_of (step1 dp s c)).
Proof.
  intros Hc. apply only_value_ow. destruct c; try contradiction.
  - cbn [step1]. destruct (transform_move s (req_point r)) as [mv t]. apply do_move_only.
  - cbn [step1]. destruct (dm s).
    + match goal with |- context [do_move ?a ?b ?c ?d ?f ?g ?h] =>
        pose proof (do_move_only a b c d f g h) as Hd; destruct (do_move a b c d f g h) as [[[s1 ls] cs] e1] end.
      exact Hd.
    + destruct (set_distance s Absolute) as [s0 l0].
      match goal with |- context [do_move ?a ?b ?c ?d ?f ?g ?h] =>
        pose proof (do_move_only a b c d f g h) as Hd; destruct (do_move a b c d f g h) as [[[s1 ls] cs] e1] end.
      destruct (set_distance s1 Relative) as [s2 l2]. exact Hd.
  - cbn [step1]. destruct (negb _); [exact I|]. destruct (update_axes _ _ _ _); exact I.
  - cbn [step1]. destruct (negb _); [exact I|]. destruct (update_axes _ _ _ _); exact I.
  - cbn [step1]. destruct m; [|exact I]. destruct (transform_move s (req_point r)) as [mv t].
    destruct (negb (within _ _)); [exact I|]. destruct (negb (req_finite r && _)); [exact I|].
    destruct (update_axes _ _ _ _) as [s1|s1]; [|exact I].
    pose proof (track_only s1 ps) as Ht. destruct (track s1 ps) as [s2 [e1|]]; [exact Ht|exact I].
  - apply polyline_only.
Qed.

Lemma ow_modal dp s c : match c with SetDistance _ | EnterAbs | EnterRel | ExitMode | SetExtrusion _
     | SetFeedMode _ | SetUnits _ | SetPlane _ | SetTimeUnits _ | SetTempUnits _ | Query _ | Comment
     | Annotate _ | AddHook _ | RemoveHook _ | SetTransform _ | ToolOff | PowerOff | CoolantOff => True
     | _ => False end ->
  ow s c (err_of (step1 dp s c)).
Proof.
  intros Hc. apply only_value_ow. destruct c; try contradiction; cbn [step1];
    try (destruct m as [a|]; [|exact I]); try exact I.
  - destruct (dm s); [exact I|]. destruct (set_distance s Absolute); exact I.
  - destruct (dm s); [|exact I]. destruct (set_distance s Relative); exact I.
  - destruct (modes s) as [|p rest]; [exact I|]. destruct p, (dm s); try exact I;
      match goal with |- context [set_distance ?a ?b] => destruct (set_distance a b) end; exact I.
  - destruct valid_key; exact I.
  - destruct (existsb _ _); exact I.
Qed.

Lemma ow_values dp s c : match c with SetFeed _ | SetPower _ | SetFan _ _ | SetBedT _ | SetHotendT _
     | SetChamberT _ | Sleep _ => True | _ => False end ->
  ow s c (err_of (step1 dp s c)).
Proof.
  intros Hc. apply only_value_ow. destruct c; try contradiction; cbn [step1]; unfold try_feed, try_power;
    ifs; exact I.
Qed.

Lemma ow_bounds dp s n lo hi slo shi : ow s (SetBounds n lo hi slo shi) (err_of (step1 dp s (SetBounds n lo hi slo shi))).
Proof.
  apply only_value_ow. cbn [step1]. destruct n; try exact I;
    try (destruct slo; try exact I; destruct shi; try exact I; destruct (qleb _ _); exact I).
  destruct (ge_point lo hi); exact I.
Qed.

Lemma ow_tool dp s c : match c with ToolOn _ _ | PowerOn _ _ | ToolChange _ _ | CoolantOn _ => True | _ => False end ->
  ow s c (err_of (step1 dp s c)).
Proof.
  intros Hc. destruct c; try contradiction; cbn [step1].
  - destruct m as [sm|]; [|exact I]. destruct sm; [exact I| |];
      (destruct (tool_on s) eqn:Et; [cbn; auto|]; unfold try_power; ifs; exact I).
  - destruct m as [pm|]; [|exact I]. destruct pm; [exact I| |];
      (destruct (tool_on s) eqn:Et; [cbn; auto|]; unfold try_power; ifs; exact I).
  - destruct m as [sm|]; [|exact I]. destruct sm; [exact I| |];
      (destruct (negb _); [exact I|]; destruct (n <? 1)%Z; [exact I|];
       destruct (tool_on s) eqn:Et; [cbn; auto|]; destruct (cool_on s) eqn:Ec; [cbn; auto|exact I]).
  - destruct m as [cm|]; [|exact I]. destruct cm; [exact I| |];
      (destruct (cool_on s) eqn:Ec; [cbn; auto|exact I]).
Qed.

Lemma ow_halt dp s m ps : ow s (Halt m ps) (err_of (step1 dp s (Halt m ps))).
Proof.
  cbn [step1]. destruct m as [h|]; [|exact I]. destruct h; try exact I; apply halt_cmd_ow; exact I.
Qed.

Lemma ow_emergency dp s reset : ow s (EmergencyHalt reset) (err_of (step1 dp s (EmergencyHalt reset))).
Proof.
  apply only_value_ow. cbn [step1].
  set (s3 := written (written (coolant_off (written (tool_off s))))).
  pose proof (halt_cmd_err dp s3 (if reset then HEndReset else HPause) []) as Hh.
  destruct (halt_cmd dp s3 (if reset then HEndReset else HPause) []) as [[[s4 ls] calls] e4].
  cbn [err_of] in *. destruct e4 as [e|]; [|exact I].
  destruct (Hh e eq_refl) as [[_ Ht]|[[_ [Hc _]]| ->]]; [discriminate Ht|discriminate Hc|exact I].
Qed.

Theorem interlock_ow dp s c : ow s c (err_of (step1 dp s c)).
Proof.
  destruct c; first [apply ow_motion; exact I | apply ow_modal; exact I | apply ow_values; exact I
                    | apply ow_bounds | apply ow_tool; exact I | apply ow_halt | apply ow_emergency].
Qed.

Theorem interlock_only_when dp s c e : err_of (step1 dp s c) = Some e ->
  (e = ToolStateErr -> tool_on s = true /\ interlock_cmd_tool c) /\
  (e = CoolantStateErr -> cool_on s = true /\ interlock_cmd_cool c) /\
  (e = ToolStateErr \/ e = CoolantStateErr \/ e = ValueErr).
Proof.
  intros H. pose proof (interlock_ow dp s c) as Ho. rewrite H in Ho.
  destruct e; cbn in Ho; try contradiction; (split; [|split]);
    try (intros X; discriminate X); try (intros _; exact Ho); tauto.
Qed.
