(* Interlock invariant of the builder model against the reference scan (C02, shared by C07). *)
From Coq Require Import ZArith QArith Bool List String Lia.
From GS Require Import gen.GenTables model.Num model.Builder model.Interp proofs.Tables.
Import ListNotations.
Open Scope string_scope.
Open Scope list_scope.

(* ---------------------------------------------------------------- words without M *)
Definition nom (w : word) : Prop := fst w <> "M".
Definition mfree (l : line) : Prop := Forall nom l.

Lemma is_m_nom w n : nom w -> is_m w n = false.
Proof.
  unfold nom, is_m, is_code, is_letter. intros H.
  destruct (String.eqb_spec (fst w) "M"); [contradiction|reflexivity].
Qed.

Lemma step_word_nom f w : nom w -> step_word f w = f.
Proof.
  intros H. unfold step_word, tool_start, tool_stop, cool_start, cool_stop, tool_change, is_halt.
  cbn [existsb halt_codes]. rewrite !(is_m_nom w _ H). cbn.
  destruct f as [t c o]; cbn. now rewrite !andb_true_r.
Qed.

Lemma scan_line_mfree f l : mfree l -> scan_line f l = f.
Proof.
  unfold scan_line. revert f. induction l as [|w l IH]; intros f H; [reflexivity|].
  inversion H as [|? ? Hw Hl]; subst. cbn [fold_left]. rewrite step_word_nom by exact Hw.
  now apply IH.
Qed.

Lemma scan_line_head f w l : mfree l -> scan_line f (w :: l) = step_word f w.
Proof. intros H. unfold scan_line. cbn [fold_left]. now apply (scan_line_mfree (step_word f w) l). Qed.

Lemma is_m_W n k : is_m (W "M" n) k = Z.eqb n k.
Proof.
  unfold is_m, is_code, is_letter, W. cbn [fst snd]. rewrite String.eqb_refl. cbn [andb].
  unfold Qeq_bool, inject_Z. cbn [Qnum Qden]. rewrite !Z.mul_1_r. unfold Zeq_bool.
  destruct (Z.compare_spec n k) as [->|Hlt|Hgt].
  - now rewrite Z.eqb_refl.
  - symmetry. apply Z.eqb_neq. lia.
  - symmetry. apply Z.eqb_neq. lia.
Qed.

Lemma nom_W_G n : nom (W "G" n). Proof. unfold nom, W. cbn. discriminate. Qed.
Lemma nom_letter (l : string) q : l <> "M" -> nom (l, q). Proof. unfold nom. cbn. auto. Qed.

(* effect of one M word on the scan *)
Lemma step_word_M f n : step_word f (W "M" n) =
  let ts := (n =? 3)%Z || (n =? 4)%Z in
  let cs := (n =? 7)%Z || (n =? 8)%Z in
  let hc := (n =? 6)%Z || existsb (Z.eqb n) halt_codes in
  mkflags (if ts then true else if (n =? 5)%Z then false else f_tool f)
          (if cs then true else if (n =? 9)%Z then false else f_cool f)
          (f_ok f && (if ts then negb (f_tool f) else true) && (if cs then negb (f_cool f) else true)
                  && (if hc then negb (f_tool f || f_cool f) else true)).
Proof.
  unfold step_word, tool_start, tool_stop, cool_start, cool_stop, tool_change, is_halt.
  cbn [existsb halt_codes]. rewrite !is_m_W. reflexivity.
Qed.

(* ---------------------------------------------------------------- parameter words *)
Definition pkeys_ok (ps : params) : Prop := Forall (fun kv => fst kv <> "M") ps.

Lemma pwords_mfree dp ps : pkeys_ok ps -> mfree (pwords dp ps).
Proof.
  unfold pkeys_ok, mfree, pwords. intros H. apply Forall_map.
  eapply Forall_impl; [|exact H]. intros [k v] Hk. exact Hk.
Qed.

Lemma axis_words_mfree dp p : mfree (axis_words dp p).
Proof.
  unfold axis_words, mfree. destruct (px p), (py p), (pz p); cbn;
    repeat constructor; unfold nom; cbn; discriminate.
Qed.

Lemma mfree_app a b : mfree a -> mfree b -> mfree (a ++ b).
Proof. intros. apply Forall_app. now split. Qed.

Lemma pset_keys_ok k v ps : k <> "M" -> pkeys_ok ps -> pkeys_ok (pset k v ps).
Proof.
  intros Hk. induction ps as [|[k' v'] ps IH]; intros H; cbn.
  - repeat constructor. exact Hk.
  - inversion H as [|? ? H1 H2]; subst. destruct (String.eqb k k').
    + constructor; [exact Hk|exact H2].
    + constructor; [exact H1|now apply IH].
Qed.

Definition hook_ok (h : hook) : Prop := match h with HSet _ k _ => k <> "M" | _ => True end.

Lemma premove_keys_ok k ps : pkeys_ok ps -> pkeys_ok (premove k ps).
Proof.
  induction ps as [|[k' v'] ps IH]; intros H; cbn; [constructor|]. inversion H as [|? ? H1 H2]; subst.
  destruct (String.eqb k k'); [now apply IH|constructor; [exact H1|now apply IH]].
Qed.

Lemma run_hook_keys s h o t ps f : hook_ok h -> pkeys_ok ps -> pkeys_ok (run_hook s h o t ps f).
Proof.
  destruct h; cbn; intros Hh Hp; [exact Hp|now apply pset_keys_ok| |now apply premove_keys_ok].
  apply pset_keys_ok; [discriminate|exact Hp].
Qed.

Lemma run_hooks_keys s hs : forall o t ps, Forall hook_ok hs -> pkeys_ok ps ->
  pkeys_ok (fst (run_hooks s hs o t ps)).
Proof.
  induction hs as [|h hs IH]; intros o t ps Hh Hp; cbn; [exact Hp|].
  inversion Hh as [|? ? H1 H2]; subst.
  specialize (IH o t (run_hook s h o t ps qsqrt) H2 (run_hook_keys s h o t ps qsqrt H1 Hp)).
  destruct (run_hooks s hs o t (run_hook s h o t ps qsqrt)) as [ps'' calls]. exact IH.
Qed.

(* ---------------------------------------------------------------- the invariant *)
Definition st_of (r : res) : st := match r with (s, _, _, _) => s end.
Definition lines_of (r : res) : list line := match r with (_, ls, _, _) => ls end.
Definition err_of (r : res) : option err := match r with (_, _, _, e) => e end.

(* commands whose free parameter letters cannot spell an M word *)
Definition cmd_ok (c : cmd) : Prop :=
  match c with
  | Move _ _ ps | MoveAbs _ _ ps | SetAxis _ ps | Home _ ps | Probe _ _ ps | Polyline _ ps
  | Halt _ ps => pkeys_ok ps
  | AddHook h => hook_ok h
  | _ => True
  end.

(* same tool/coolant/hook fields *)
Definition same_flags (s s' : st) : Prop :=
  tool_on s' = tool_on s /\ cool_on s' = cool_on s /\ hooks s' = hooks s.

Lemma same_flags_refl s : same_flags s s. Proof. repeat split. Qed.
Lemma same_flags_trans a b c : same_flags a b -> same_flags b c -> same_flags a c.
Proof. unfold same_flags. intuition congruence. Qed.

Definition Inv (s : st) (f : flags) : Prop :=
  f_ok f = true /\ (f_tool f = true -> tool_on s = true) /\ (f_cool f = true -> cool_on s = true)
  /\ Forall hook_ok (hooks s).

Lemma Inv_same s s' f : same_flags s s' -> Inv s f -> Inv s' f.
Proof. intros (H1 & H2 & H3) (Ho & Ht & Hc & Hh). unfold Inv. rewrite H1, H2, H3. auto. Qed.

Lemma track_same s ps : same_flags s (fst (track s ps)).
Proof.
  unfold track, try_feed, try_power.
  destruct (pget "F" ps); destruct (pget "S" ps);
    repeat match goal with |- context [if ?b then _ else _] => destruct b end;
    cbn; repeat split.
Qed.

Lemma update_axes_same s t r ps :
  match update_axes s t r ps with inl s' | inr s' => same_flags s s' end.
Proof. unfold update_axes. destruct (within _ _); cbn; repeat split. Qed.

Lemma do_move_spec dp k s r mv target ps : pkeys_ok ps -> Forall hook_ok (hooks s) ->
  let res := do_move dp k s r mv target ps in
  same_flags s (st_of res) /\
  (lines_of res = [] \/ exists ps', pkeys_ok ps' /\ lines_of res = [move_line dp (i_move k) mv ps']).
Proof.
  intros Hp Hh. unfold do_move.
  set (hk := match k, hooks s with
             | Linear, _ :: _ => run_hooks s (hooks s) (resolve (pos s)) (to_absolute s mv) ps
             | _, _ => (ps, []) end).
  assert (Hk : pkeys_ok (fst hk)).
  { unfold hk. destruct k; [|exact Hp]. destruct (hooks s) eqn:E; [exact Hp|].
    rewrite <- E. apply run_hooks_keys; [rewrite E; exact Hh|exact Hp]. }
  destruct hk as [ps1 calls]. cbn [fst] in Hk.
  pose proof (track_same s ps1) as Ht. destruct (track s ps1) as [s1 [e|]]; cbn [fst] in Ht.
  - cbn. split; [exact Ht|now left].
  - destruct (negb (req_finite r && params_finite ps1)).
    + cbn. split; [exact Ht|now left].
    + pose proof (update_axes_same s1 target r ps1) as Hu.
      destruct (update_axes s1 target r ps1) as [s2|s2]; cbn.
      * split; [eapply same_flags_trans; [exact Ht|]; destruct Hu as (A & B & C); repeat split; assumption|].
        right. exists ps1. split; [exact Hk|reflexivity].
      * split; [eapply same_flags_trans; [exact Ht|exact Hu]|now left].
Qed.

Lemma move_line_scan dp k mv ps f : pkeys_ok ps -> scan_line f (move_line dp (i_move k) mv ps) = f.
Proof.
  intros H. unfold move_line. apply scan_line_mfree. constructor.
  - destruct k; [rewrite i_move_linear|rewrite i_move_rapid]; apply nom_W_G.
  - apply mfree_app; [apply axis_words_mfree|now apply pwords_mfree].
Qed.

Lemma scan_lines_nil f : scan_lines f [] = f. Proof. reflexivity. Qed.
Lemma scan_lines_one f l : scan_lines f [l] = scan_line f l. Proof. reflexivity. Qed.
Lemma scan_lines_cons f l ls : scan_lines f (l :: ls) = scan_lines (scan_line f l) ls.
Proof. reflexivity. Qed.
Lemma scan_lines_app f a b : scan_lines f (a ++ b) = scan_lines (scan_lines f a) b.
Proof. unfold scan_lines. apply fold_left_app. Qed.

Lemma do_move_inv dp k s r mv target ps f : pkeys_ok ps -> Inv s f ->
  let res := do_move dp k s r mv target ps in
  Inv (st_of res) (scan_lines f (lines_of res)) /\ same_flags s (st_of res).
Proof.
  intros Hp HI. destruct HI as (Ho & Ht & Hc & Hh).
  pose proof (do_move_spec dp k s r mv target ps Hp Hh) as (Hs & Hl). cbn zeta. split; [|exact Hs].
  destruct Hl as [-> | (ps' & Hp' & ->)].
  - rewrite scan_lines_nil. eapply Inv_same; [exact Hs|]. unfold Inv. auto.
  - rewrite scan_lines_one, move_line_scan by exact Hp'.
    eapply Inv_same; [exact Hs|]. unfold Inv. auto.
Qed.

Lemma set_distance_spec s d f :
  let '(s', l) := set_distance s d in same_flags s s' /\ scan_line f l = f.
Proof.
  unfold set_distance. split; [repeat split|].
  apply scan_line_mfree. constructor; [|constructor]. rewrite i_dmode_g. apply nom_W_G.
Qed.

Ltac flags_simpl :=
  repeat match goal with
  | |- context [scan_lines _ []] => rewrite scan_lines_nil
  | |- context [scan_lines _ [_]] => rewrite scan_lines_one
  end.

Lemma inv_same_line s s' f l : Inv s f -> same_flags s s' -> scan_line f l = f ->
  Inv s' (scan_lines f [l]).
Proof. intros HI Hs Hl. rewrite scan_lines_one, Hl. eapply Inv_same; eauto. Qed.

Lemma g_line_scan f n rest : mfree rest -> scan_line f (W "G" n :: rest) = f.
Proof. intros H. apply scan_line_mfree. constructor; [apply nom_W_G|exact H]. Qed.

Lemma mfree_single (l : string) q : l <> "M" -> mfree [(l, q)].
Proof. intros H. constructor; [now apply nom_letter|constructor]. Qed.

(* the halt command on its own *)
Lemma halt_cmd_inv dp s h ps f : h <> HaltOff -> pkeys_ok ps -> Inv s f ->
  let res := halt_cmd dp s h ps in
  Inv (st_of res) (scan_lines f (lines_of res)) /\ same_flags s (st_of res).
Proof.
  intros Hh Hp HI. unfold halt_cmd, try_halt.
  destruct (tool_on s) eqn:Et; [cbn; split; [exact HI|apply same_flags_refl]|].
  destruct (cool_on s) eqn:Ec; [cbn; split; [exact HI|apply same_flags_refl]|].
  set (s1 := set_haltm s h).
  assert (Hs1 : same_flags s s1) by (repeat split).
  match goal with |- context [match ?X with inl _ => _ | inr _ => _ end] => set (r := X) end.
  assert (Hr : match r with inl s2 => same_flags s s2 | inr _ => True end).
  { unfold r. destruct (match pget "S" ps with Some t => Some t | None => pget "R" ps end); [|exact Hs1].
    destruct h; try exact Hs1;
      match goal with |- context [if ?b then _ else _] => destruct b end; try exact I; repeat split. }
  destruct r as [s2|e].
  - destruct (negb (params_finite ps)).
    + cbn. split; [eapply Inv_same; eauto|exact Hr].
    + cbn [ok st_of lines_of]. assert (Hs2 : same_flags s (written s2)).
      { destruct Hr as (A & B & C). repeat split; assumption. }
      split; [|exact Hs2].
      rewrite scan_lines_one, i_halt_m by exact Hh.
      rewrite scan_line_head by now apply pwords_mfree.
      rewrite step_word_M. destruct HI as (Ho & Ht & Hc & Hk).
      destruct Hs2 as (A & B & C). unfold Inv. rewrite A, B, C, Et, Ec.
      assert (Hft : f_tool f = false) by (destruct (f_tool f); [specialize (Ht eq_refl); congruence|reflexivity]).
      assert (Hfc : f_cool f = false) by (destruct (f_cool f); [specialize (Hc eq_refl); congruence|reflexivity]).
      rewrite Hft, Hfc, Ho.
      pose proof (halt_codes_table h Hh) as Hin.
      destruct h; try congruence; cbn; repeat split; auto; discriminate.
  - cbn. split; [eapply Inv_same; eauto|exact Hs1].
Qed.

Lemma poly_go_inv dp ps : pkeys_ok ps -> forall pts s acc calls f0, Inv s (scan_lines f0 acc) ->
  Inv (st_of (poly_go dp ps pts s acc calls)) (scan_lines f0 (lines_of (poly_go dp ps pts s acc calls))).
Proof.
  intros Hc. induction pts as [|p pts' IH]; intros s0 acc calls f0 H0; cbn [poly_go]; [exact H0|].
  destruct (transform_move s0 (to_distance_mode s0 p)) as [mv target].
  match goal with |- context [do_move ?a ?b ?c ?d ?e ?g ?h] =>
    pose proof (do_move_inv a b c d e g h (scan_lines f0 acc) Hc H0) as [H1 _];
    destruct (do_move a b c d e g h) as [[[s1 ls] cs] e1] end.
  cbn [st_of lines_of] in H1. rewrite <- scan_lines_app in H1.
  destruct e1; [exact H1|]. now apply IH.
Qed.

(* ---------------------------------------------------------------- one step *)
Lemma step_inv dp s c f : cmd_ok c -> Inv s f ->
  Inv (st_of (step1 dp s c)) (scan_lines f (lines_of (step1 dp s c))).
Proof.
  intros Hc HI.
  destruct c; cbn [cmd_ok] in Hc.
  - (* Move *) cbn [step1]. destruct (transform_move s (req_point r)) as [mv target].
    now apply do_move_inv.
  - (* MoveAbs *) cbn [step1].
    destruct (dm s) eqn:Ed.
    + pose proof (do_move_inv dp k s r (req_point r) (replace (pos s) (req_point r)) ps f Hc HI) as [H1 _].
      destruct (do_move dp k s r (req_point r) (replace (pos s) (req_point r)) ps) as [[[s1 ls] calls] e].
      cbn in *. exact H1.
    + pose proof (set_distance_spec s Absolute f) as Hsd.
      destruct (set_distance s Absolute) as [s0 l0]. destruct Hsd as [Hs0 Hl0].
      assert (HI0 : Inv s0 f) by (eapply Inv_same; eauto).
      pose proof (do_move_inv dp k s0 r (req_point r) (replace (pos s) (req_point r)) ps f Hc HI0) as [H1 _].
      destruct (do_move dp k s0 r (req_point r) (replace (pos s) (req_point r)) ps) as [[[s1 ls] calls] e].
      cbn [st_of lines_of] in H1.
      pose proof (set_distance_spec s1 Relative (scan_lines f ls)) as Hsd.
      destruct (set_distance s1 Relative) as [s2 l2]. destruct Hsd as [Hs2 Hl2].
      cbn [st_of lines_of app]. rewrite scan_lines_cons, Hl0, scan_lines_app, scan_lines_one, Hl2.
      eapply Inv_same; eauto.
  - (* SetAxis *) cbn [step1]. destruct (negb _); [exact HI|].
    pose proof (update_axes_same s (replace (pos s) (req_point r)) r ps) as Hu.
    destruct (update_axes _ _ _ _) as [s1|s1]; cbn [ok fail st_of lines_of].
    + rewrite scan_lines_one, i_offset_eq, g_line_scan
        by (apply mfree_app; [apply axis_words_mfree|now apply pwords_mfree]).
      eapply Inv_same; [|exact HI]. destruct Hu as (A & B & C). repeat split; assumption.
    + eapply Inv_same; eauto.
  - (* Home *) cbn [step1]. destruct (negb _); [exact HI|].
    match goal with |- context [update_axes ?a ?b ?c ?d] =>
      pose proof (update_axes_same a b c d) as Hu; destruct (update_axes a b c d) as [s1|s1] end;
      cbn [ok fail st_of lines_of].
    + rewrite scan_lines_one, i_home_eq, g_line_scan
        by (apply mfree_app; [apply axis_words_mfree|now apply pwords_mfree]).
      eapply Inv_same; [|exact HI]. destruct Hu as (A & B & C). repeat split; assumption.
    + eapply Inv_same; eauto.
  - (* Probe *) cbn [step1]. destruct m as [pm|]; [|exact HI].
    destruct (transform_move s (req_point r)) as [mv target].
    destruct (negb (within _ _)); [exact HI|]. destruct (negb (req_finite r && _)); [exact HI|].
    match goal with |- context [update_axes ?a ?b ?c ?d] =>
      pose proof (update_axes_same a b c d) as Hu; destruct (update_axes a b c d) as [s1|s1] end.
    + pose proof (track_same s1 ps) as Ht. destruct (track s1 ps) as [s2 [e|]]; cbn [fst] in Ht;
        cbn [ok fail st_of lines_of].
      * eapply Inv_same; [|exact HI]. eapply same_flags_trans; eauto.
      * rewrite scan_lines_one. unfold move_line.
        rewrite scan_line_mfree.
        -- eapply Inv_same; [|exact HI]. eapply same_flags_trans; [exact Hu|].
           destruct Ht as (A & B & C). repeat split; assumption.
        -- constructor; [|apply mfree_app; [apply axis_words_mfree|now apply pwords_mfree]].
           destruct (i_probe_g pm) as [Hg _]. unfold nom. rewrite Hg. discriminate.
    + cbn. eapply Inv_same; eauto.
  - (* Polyline *) cbn [step1]. apply poly_go_inv; assumption.
  - (* SetDistance *) cbn [step1]. destruct m as [d|]; [|exact HI].
    pose proof (set_distance_spec s d f) as Hsd. destruct (set_distance s d) as [s1 l]. destruct Hsd.
    cbn [ok st_of lines_of]. eapply inv_same_line; eauto.
  - (* EnterAbs *) cbn [step1]. destruct (dm s); [cbn; eapply Inv_same; [|exact HI]; repeat split|].
    pose proof (set_distance_spec s Absolute f) as Hsd. destruct (set_distance s Absolute) as [s1 l].
    destruct Hsd as [(A & B & C) Hl]. cbn [ok st_of lines_of]. eapply inv_same_line; eauto. repeat split; assumption.
  - (* EnterRel *) cbn [step1]. destruct (dm s); [|cbn; eapply Inv_same; [|exact HI]; repeat split].
    pose proof (set_distance_spec s Relative f) as Hsd. destruct (set_distance s Relative) as [s1 l].
    destruct Hsd as [(A & B & C) Hl]. cbn [ok st_of lines_of]. eapply inv_same_line; eauto. repeat split; assumption.
  - (* ExitMode *) cbn [step1]. destruct (modes s) as [|prev rest]; [exact HI|].
    assert (H0 : Inv (set_modes s rest) f) by (eapply Inv_same; [|exact HI]; repeat split).
    destruct prev, (dm s); try exact H0.
    + pose proof (set_distance_spec (set_modes s rest) Absolute f) as Hsd.
      destruct (set_distance (set_modes s rest) Absolute) as [s1 l]. destruct Hsd.
      cbn [ok st_of lines_of]. eapply inv_same_line; eauto.
    + pose proof (set_distance_spec (set_modes s rest) Relative f) as Hsd.
      destruct (set_distance (set_modes s rest) Relative) as [s1 l]. destruct Hsd.
      cbn [ok st_of lines_of]. eapply inv_same_line; eauto.
  - (* SetExtrusion *) cbn [step1]. destruct m as [d|]; [|exact HI]. cbn [ok st_of lines_of].
    rewrite scan_lines_one, i_emode_m, scan_line_head by constructor. rewrite step_word_M.
    destruct HI as (Ho & Ht & Hcc & Hk). destruct d; cbn; unfold Inv; cbn; rewrite Ho;
      destruct f as [t c o]; cbn in *; repeat split; auto; now rewrite !andb_true_r || auto.
  - (* SetFeedMode *) cbn [step1]. destruct m as [d|]; [|exact HI]. cbn [ok st_of lines_of].
    eapply inv_same_line; [exact HI|repeat split|]. rewrite i_fmode_g. apply g_line_scan; constructor.
  - (* SetUnits *) cbn [step1]. destruct m as [d|]; [|exact HI]. cbn [ok st_of lines_of].
    eapply inv_same_line; [exact HI|repeat split|]. rewrite i_units_g. apply g_line_scan; constructor.
  - (* SetPlane *) cbn [step1]. destruct m as [d|]; [|exact HI]. cbn [ok st_of lines_of].
    eapply inv_same_line; [exact HI|repeat split|]. rewrite i_plane_g. apply g_line_scan; constructor.
  - (* SetTimeUnits *) cbn [step1]. destruct m as [d|]; [|exact HI]. cbn. eapply Inv_same; [|exact HI]. repeat split.
  - (* SetTempUnits *) cbn [step1]. destruct m as [d|]; [|exact HI]. cbn. eapply Inv_same; [|exact HI]. repeat split.
  - (* SetFeed *) cbn [step1]. unfold try_feed.
    destruct (negb (in_range _ _)); [exact HI|]. destruct (xlt x (Fin 0)); [exact HI|].
    destruct (xfinite x); cbn [ok fail st_of lines_of].
    + eapply inv_same_line; [exact HI|repeat split|]. apply scan_line_mfree, mfree_single. discriminate.
    + eapply Inv_same; [|exact HI]. repeat split.
  - (* SetPower *) cbn [step1]. unfold try_power.
    destruct (negb (in_range _ _)); [exact HI|]. destruct (xlt x (Fin 0)); [exact HI|].
    destruct (xfinite x); cbn [ok fail st_of lines_of].
    + eapply inv_same_line; [exact HI|repeat split|]. apply scan_line_mfree, mfree_single. discriminate.
    + eapply Inv_same; [|exact HI]. repeat split.
  - (* SetFan *) cbn [step1]. destruct (fan <? 0)%Z; [exact HI|]. destruct (_ || _); [exact HI|].
    destruct (xfinite speed); [|exact HI]. cbn [ok st_of lines_of].
    rewrite scan_lines_one, i_fan_m, scan_line_head
      by (constructor; [apply nom_letter; discriminate|apply mfree_single; discriminate]).
    rewrite step_word_M. destruct HI as (Ho & Ht & Hcc & Hk). unfold Inv. cbn.
    destruct f as [t c o]; cbn in *. rewrite Ho. repeat split; auto.
  - (* SetBedT *) cbn [step1]. destruct (negb (xfinite x)); [exact HI|]. destruct (in_range _ _); [|exact HI].
    cbn [ok st_of lines_of]. rewrite scan_lines_one, i_bed_m, scan_line_head by (apply mfree_single; discriminate).
    rewrite step_word_M. destruct HI as (Ho & Ht & Hcc & Hk). unfold Inv. cbn.
    destruct f as [t c o]; cbn in *. rewrite Ho. repeat split; auto.
  - (* SetHotendT *) cbn [step1]. destruct (negb (xfinite x)); [exact HI|]. destruct (in_range _ _); [|exact HI].
    cbn [ok st_of lines_of]. rewrite scan_lines_one, i_hotend_m, scan_line_head by (apply mfree_single; discriminate).
    rewrite step_word_M. destruct HI as (Ho & Ht & Hcc & Hk). unfold Inv. cbn.
    destruct f as [t c o]; cbn in *. rewrite Ho. repeat split; auto.
  - (* SetChamberT *) cbn [step1]. destruct (negb (xfinite x)); [exact HI|]. destruct (in_range _ _); [|exact HI].
    cbn [ok st_of lines_of]. rewrite scan_lines_one, i_chamber_m, scan_line_head by (apply mfree_single; discriminate).
    rewrite step_word_M. destruct HI as (Ho & Ht & Hcc & Hk). unfold Inv. cbn.
    destruct f as [t c o]; cbn in *. rewrite Ho. repeat split; auto.
  - (* Sleep *) cbn [step1]. destruct (xlt x (Fin 0)); [exact HI|]. destruct (xfinite x); [|exact HI].
    cbn [ok st_of lines_of]. eapply inv_same_line; [exact HI|repeat split|].
    rewrite i_sleep_g. apply g_line_scan, mfree_single. discriminate.
  - (* ToolOn *) cbn [step1]. destruct m as [sm|]; [|exact HI]. destruct sm; [exact HI| |];
    (destruct (tool_on s) eqn:Et; [exact HI|]; unfold try_power;
     destruct (negb (in_range _ _)); [exact HI|]; destruct (xlt x (Fin 0)); [exact HI|];
     destruct HI as (Ho & Ht & Hcc & Hk);
     assert (Hft : f_tool f = false) by (destruct (f_tool f); [specialize (Ht eq_refl); congruence|reflexivity]);
     destruct (xfinite x); cbn [ok fail st_of lines_of];
     [ rewrite scan_lines_one; unfold scan_line; cbn [fold_left];
       rewrite (step_word_nom f ("S", _)) by (apply nom_letter; discriminate);
       rewrite i_spin_m, step_word_M; unfold Inv; cbn; rewrite Hft, Ho; cbn; repeat split; auto
     | unfold Inv; cbn; repeat split; auto ]).
  - (* ToolOff *) cbn [step1 ok st_of lines_of]. rewrite scan_lines_one, i_spin_m, scan_line_head by constructor.
    rewrite step_word_M. destruct HI as (Ho & Ht & Hcc & Hk). unfold Inv. cbn. rewrite Ho.
    rewrite !andb_true_r. repeat split; auto; try discriminate.
  - (* PowerOn *) cbn [step1]. destruct m as [pm|]; [|exact HI]. destruct pm; [exact HI| |];
    (destruct (tool_on s) eqn:Et; [exact HI|]; unfold try_power;
     destruct (negb (in_range _ _)); [exact HI|]; destruct (xlt x (Fin 0)); [exact HI|];
     destruct HI as (Ho & Ht & Hcc & Hk);
     assert (Hft : f_tool f = false) by (destruct (f_tool f); [specialize (Ht eq_refl); congruence|reflexivity]);
     destruct (xfinite x); cbn [ok fail st_of lines_of];
     [ rewrite scan_lines_one; unfold scan_line; cbn [fold_left];
       rewrite (step_word_nom f ("S", _)) by (apply nom_letter; discriminate);
       rewrite i_power_m, step_word_M; unfold Inv; cbn; rewrite Hft, Ho; cbn; repeat split; auto
     | unfold Inv; cbn; repeat split; auto ]).
  - (* PowerOff *) cbn [step1 ok st_of lines_of]. rewrite scan_lines_one, i_power_m, scan_line_head by constructor.
    rewrite step_word_M. destruct HI as (Ho & Ht & Hcc & Hk). unfold Inv. cbn. rewrite Ho.
    rewrite !andb_true_r. repeat split; auto; try discriminate.
  - (* ToolChange *) cbn [step1]. destruct m as [sm|]; [|exact HI].
    assert (Hsm : forall sm', sm = sm' -> sm' <> SwapOff ->
      Inv (st_of (if negb (in_range (b_toolnum (bnd s)) (Fin (inject_Z n))) then fail s [] ValueErr
        else if (n <? 1)%Z then fail s [] ValueErr else if tool_on s then fail s [] ToolStateErr
        else if cool_on s then fail s [] CoolantStateErr
        else ok (written (set_swapm (set_toolnum s n) sm')) [[("T", inject_Z n); i_swap sm']]))
      (scan_lines f (lines_of (if negb (in_range (b_toolnum (bnd s)) (Fin (inject_Z n))) then fail s [] ValueErr
        else if (n <? 1)%Z then fail s [] ValueErr else if tool_on s then fail s [] ToolStateErr
        else if cool_on s then fail s [] CoolantStateErr
        else ok (written (set_swapm (set_toolnum s n) sm')) [[("T", inject_Z n); i_swap sm']])))).
    { intros sm' _ Hne. destruct (negb _); [exact HI|]. destruct (n <? 1)%Z; [exact HI|].
      destruct (tool_on s) eqn:Et; [exact HI|]. destruct (cool_on s) eqn:Ec; [exact HI|].
      cbn [ok st_of lines_of]. rewrite scan_lines_one. unfold scan_line. cbn [fold_left].
      rewrite (step_word_nom f ("T", _)) by (apply nom_letter; discriminate).
      rewrite i_swap_m by exact Hne. rewrite step_word_M.
      destruct HI as (Ho & Ht & Hcc & Hk).
      assert (Hft : f_tool f = false) by (destruct (f_tool f); [specialize (Ht eq_refl); congruence|reflexivity]).
      assert (Hfc : f_cool f = false) by (destruct (f_cool f); [specialize (Hcc eq_refl); congruence|reflexivity]).
      unfold Inv. cbn. rewrite Hft, Hfc, Ho. cbn. repeat split; auto; discriminate. }
    destruct sm; [exact HI| |]; (apply Hsm; [reflexivity|discriminate]).
  - (* CoolantOn *) cbn [step1]. destruct m as [cm|]; [|exact HI]. destruct cm; [exact HI| |];
    (destruct (cool_on s) eqn:Ec; [exact HI|]; cbn [ok st_of lines_of];
     rewrite scan_lines_one, i_coolant_m, scan_line_head by constructor; rewrite step_word_M;
     destruct HI as (Ho & Ht & Hcc & Hk);
     assert (Hfc : f_cool f = false) by (destruct (f_cool f); [specialize (Hcc eq_refl); congruence|reflexivity]);
     unfold Inv; cbn; rewrite Hfc, Ho; cbn; rewrite ?andb_true_r; repeat split; auto).
  - (* CoolantOff *) cbn [step1 ok st_of lines_of]. rewrite scan_lines_one, i_coolant_m, scan_line_head by constructor.
    rewrite step_word_M. destruct HI as (Ho & Ht & Hcc & Hk). unfold Inv. cbn. rewrite Ho.
    rewrite !andb_true_r. repeat split; auto; try discriminate.
  - (* Halt *) cbn [step1]. destruct m as [h|]; [|exact HI].
    destruct h; try exact HI; (apply halt_cmd_inv; [discriminate|exact Hc|exact HI]).
  - (* EmergencyHalt *) cbn [step1].
    set (s3 := written (written (coolant_off (written (tool_off s))))).
    set (f3 := mkflags false false (f_ok f)).
    assert (H3 : Inv s3 f3).
    { destruct HI as (Ho & Ht & Hcc & Hk). unfold Inv, f3. cbn. repeat split; auto; discriminate. }
    assert (Hh : (if reset then HEndReset else HPause) <> HaltOff) by (destruct reset; discriminate).
    pose proof (halt_cmd_inv dp s3 _ [] f3 Hh (Forall_nil _) H3) as [H4 _].
    destruct (halt_cmd dp s3 (if reset then HEndReset else HPause) []) as [[[s4 ls] calls] e].
    cbn [st_of lines_of] in *.
    replace (scan_lines f ([[i_spin SpinOff]; [i_coolant CoolOff]; []] ++ ls)) with (scan_lines f3 ls); [exact H4|].
    rewrite scan_lines_app. f_equal. unfold scan_lines. cbn [fold_left].
    rewrite i_spin_m, i_coolant_m. rewrite !scan_line_head by constructor. rewrite !step_word_M.
    unfold f3. cbn. unfold scan_line. cbn. now rewrite !andb_true_r.
  - (* Query *) cbn [step1]. destruct m as [q|]; [|exact HI]. cbn [ok st_of lines_of].
    rewrite scan_lines_one, i_query_m, scan_line_head by constructor. rewrite step_word_M.
    destruct HI as (Ho & Ht & Hcc & Hk). destruct q; unfold Inv; cbn; rewrite Ho;
      destruct f as [t c o]; cbn in *; repeat split; auto.
  - (* Comment *) cbn [step1 ok st_of lines_of]. eapply inv_same_line; [exact HI|repeat split|reflexivity].
  - (* Annotate *) cbn [step1]. destruct valid_key; [|exact HI]. cbn [ok st_of lines_of].
    eapply inv_same_line; [exact HI|repeat split|reflexivity].
  - (* SetBounds *) cbn [step1]. destruct n; try exact HI;
      try (destruct slo; try exact HI; destruct shi; try exact HI; destruct (qleb _ _); [exact HI|];
           cbn; eapply Inv_same; [|exact HI]; repeat split).
    destruct (ge_point lo hi); [exact HI|]. cbn. eapply Inv_same; [|exact HI]. repeat split.
  - (* AddHook *) cbn [step1]. destruct (existsb _ _); [exact HI|]. cbn.
    destruct HI as (Ho & Ht & Hcc & Hk). unfold Inv. cbn. repeat split; auto.
    apply Forall_app. split; [exact Hk|]. constructor; [exact Hc|constructor].
  - (* RemoveHook *) cbn [step1 ok st_of lines_of]. destruct HI as (Ho & Ht & Hcc & Hk). unfold Inv. cbn.
    repeat split; auto. rewrite Forall_forall in *. intros x Hx. apply filter_In in Hx. apply Hk. tauto.
  - (* SetTransform *) cbn. eapply Inv_same; [|exact HI]. repeat split.
Qed.

(* ---------------------------------------------------------------- all histories *)
Lemma output_cons dp s c cs :
  output dp s (c :: cs) = lines_of (step1 dp s c) ++ output dp (st_of (step1 dp s c)) cs.
Proof.
  unfold output. cbn [run]. destruct (step1 dp s c) as [[[s' ls] calls] e]. reflexivity.
Qed.

Lemma final_cons dp s c cs : final dp s (c :: cs) = final dp (st_of (step1 dp s c)) cs.
Proof. unfold final. cbn [fold_left]. destruct (step1 dp s c) as [[[s' ls] calls] e]. reflexivity. Qed.

Theorem run_inv dp cs : forall s f, Forall cmd_ok cs -> Inv s f ->
  Inv (final dp s cs) (scan_lines f (output dp s cs)).
Proof.
  induction cs as [|c cs IH]; intros s f Hc HI; [exact HI|].
  inversion Hc as [|? ? H1 H2]; subst. rewrite output_cons, final_cons, scan_lines_app.
  apply IH; [exact H2|]. now apply step_inv.
Qed.

Lemma Inv_init : Inv init flags0.
Proof. unfold Inv. cbn. repeat split; auto; discriminate. Qed.
