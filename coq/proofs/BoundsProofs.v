(* C03: every bounded word of every emitted line is the rounding of a value inside the bounds in
   force; motion targets (in builder coordinates) are inside the axes box. *)
From Coq Require Import ZArith QArith Bool List String Lia Lqa.
From GS Require Import gen.GenTables model.Num model.Builder model.Interp proofs.Tables proofs.FlagsProofs
  proofs.NumProofs proofs.InterlockProofs proofs.AtomicProofs.
Import ListNotations.
Open Scope string_scope.
Open Scope list_scope.

(* ---------------------------------------------------------------- reading a line *)
(* the word is the rounding of a value inside the range (or, for integer tool numbers, that value) *)
Definition rnd_in (dp : nat) (rg : option (Q * Q)) (v : Q) : Prop :=
  exists x, in_range rg (Fin x) = true /\ (v = round_dp dp x \/ v = x).

Inductive lclass := LMotion | LFeed | LPower | LToolnum | LBed | LHotend | LChamber | LOther.

Definition is_probe_word (w : word) : bool :=
  is_letter w "G" && qltb (38 # 1) (snd w) && qltb (snd w) (39 # 1).

Definition classify (l : line) : lclass :=
  match l with
  | [] => LOther
  | w :: _ =>
    if is_g w 0 || is_g w 1 || is_probe_word w then LMotion
    else if is_letter w "F" then LFeed
    else if is_letter w "S" then LPower
    else if is_letter w "T" then LToolnum
    else if is_m w 140 || is_m w 190 then LBed
    else if is_m w 104 || is_m w 109 then LHotend
    else if is_m w 141 || is_m w 191 then LChamber
    else LOther
  end.

Definition range_for (b : bounds) (c : lclass) (k : string) : option (option (Q * Q)) :=
  match c with
  | LMotion => if String.eqb k "F" then Some (b_feed b) else if String.eqb k "S" then Some (b_power b) else None
  | LFeed => if String.eqb k "F" then Some (b_feed b) else None
  | LPower => if String.eqb k "S" then Some (b_power b) else None
  | LToolnum => if String.eqb k "T" then Some (b_toolnum b) else None
  | LBed => if String.eqb k "S" || String.eqb k "R" then Some (b_bed b) else None
  | LHotend => if String.eqb k "S" || String.eqb k "R" then Some (b_hotend b) else None
  | LChamber => if String.eqb k "S" || String.eqb k "R" then Some (b_chamber b) else None
  | LOther => None
  end.

Definition scalars_ok (dp : nat) (b : bounds) (l : line) : Prop :=
  forall k v rg, In (k, v) l -> range_for b (classify l) k = Some rg -> rnd_in dp rg v.

(* ---------------------------------------------------------------- parameters *)
Definition reserved (k : string) : bool :=
  String.eqb k "G" || String.eqb k "M" || String.eqb k "T" || String.eqb k "X" || String.eqb k "Y" || String.eqb k "Z".
Definition params_ok (ps : params) : Prop :=
  NoDup (map fst ps) /\ Forall (fun kv => reserved (fst kv) = false) ps.
Definition hook_ok2 (h : hook) : Prop := match h with HSet _ k _ => reserved k = false | _ => True end.

Lemma pwords_in dp ps k v : In (k, v) (pwords dp ps) -> exists x, In (k, x) ps /\ v = round_dp dp (xq x).
Proof.
  unfold pwords. intros H. apply in_map_iff in H as ([k' x] & E & Hin). cbn in E. injection E as <- <-.
  exists x. auto.
Qed.

Lemma nodup_pget ps k x : NoDup (map fst ps) -> In (k, x) ps -> pget k ps = Some x.
Proof.
  induction ps as [|[k' x'] ps IH]; cbn; intros Hn Hin; [contradiction|].
  inversion Hn as [|? ? Hni Hn']; subst. destruct Hin as [E|Hin].
  - injection E as -> ->. now rewrite String.eqb_refl.
  - destruct (String.eqb_spec k k') as [->|Hne]; [|now apply IH].
    exfalso. apply Hni. change k' with (fst (k', x)). now apply in_map.
Qed.

Lemma finite_in ps k x : params_finite ps = true -> In (k, x) ps -> x = Fin (xq x).
Proof.
  unfold params_finite. intros H Hin. rewrite forallb_forall in H. specialize (H _ Hin). cbn in H.
  destruct x; try discriminate. reflexivity.
Qed.

Lemma pset_in {A} k (v : A) ps k' v' : In (k', v') (pset k v ps) -> (k' = k /\ v' = v) \/ In (k', v') ps.
Proof.
  induction ps as [|[k0 v0] ps IH]; cbn; [intros [E|[]]; injection E as <- <-; auto|].
  destruct (String.eqb k k0); cbn; intros [E|H]; try (injection E as <- <-); auto.
  destruct (IH H); auto.
Qed.

Lemma pset_keys {A} k (v : A) ps : In k (map fst ps) -> map fst (pset k v ps) = map fst ps.
Proof.
  induction ps as [|[k0 v0] ps IH]; cbn; [contradiction|].
  destruct (String.eqb_spec k k0) as [->|Hne]; [reflexivity|]. intros [E|H]; [congruence|].
  cbn. now rewrite IH.
Qed.

Lemma pset_keys_new {A} k (v : A) ps : ~ In k (map fst ps) -> map fst (pset k v ps) = map fst ps ++ [k].
Proof.
  induction ps as [|[k0 v0] ps IH]; cbn; [reflexivity|].
  destruct (String.eqb_spec k k0) as [->|Hne]; [intros H; exfalso; apply H; now left|].
  intros H. cbn. rewrite IH; [reflexivity|]. intros Hin. apply H. now right.
Qed.

Lemma NoDup_snoc {A} (l : list A) k : NoDup l -> ~ In k l -> NoDup (l ++ [k]).
Proof.
  induction l as [|a l IH]; cbn; intros Hn Hk; [repeat constructor; auto|].
  inversion Hn as [|? ? Ha Hl]; subst. constructor.
  - intros Hin. apply in_app_or in Hin as [Hin|[->|[]]]; [contradiction|]. apply Hk. now left.
  - apply IH; [exact Hl|]. intros Hin. apply Hk. now right.
Qed.

Lemma pset_params_ok k v ps : reserved k = false -> params_ok ps -> params_ok (pset k v ps).
Proof.
  intros Hk [Hn Hr]. split.
  - destruct (in_dec string_dec k (map fst ps)) as [Hin|Hni].
    + now rewrite pset_keys.
    + rewrite pset_keys_new by exact Hni. now apply NoDup_snoc.
  - rewrite Forall_forall in *. intros [k' v'] Hin. apply pset_in in Hin as [[-> ->]|Hin]; [exact Hk|].
    now apply (Hr (k', v')).
Qed.

Lemma premove_in k ps kv : In kv (premove k ps) -> In kv ps.
Proof.
  induction ps as [|[k' v'] ps IH]; cbn; [auto|]. destruct (String.eqb k k'); cbn; intuition.
Qed.

Lemma premove_params_ok k ps : params_ok ps -> params_ok (premove k ps).
Proof.
  intros [Hn Hr]. split.
  - induction ps as [|[k' v'] ps IH]; cbn; [constructor|]. cbn in Hn. inversion Hn as [|? ? Hni Hn']; subst.
    assert (Hr' : Forall (fun kv => reserved (fst kv) = false) ps) by now inversion Hr.
    destruct (String.eqb k k'); [now apply IH|]. cbn. constructor; [|now apply IH].
    intros Hin. apply Hni. apply in_map_iff in Hin as (kv & E & Hin). apply in_map_iff. exists kv. split; [exact E|].
    now apply (premove_in k).
  - rewrite Forall_forall in *. intros kv Hin. apply Hr. now apply (premove_in k).
Qed.

Lemma run_hook_ok s h o t ps f : hook_ok2 h -> params_ok ps -> params_ok (run_hook s h o t ps f).
Proof.
  destruct h; cbn; intros Hh Hp; [exact Hp|now apply pset_params_ok| |now apply premove_params_ok].
  apply pset_params_ok; [reflexivity|exact Hp].
Qed.

Lemma run_hooks_ok s hs : forall o t ps, Forall hook_ok2 hs -> params_ok ps ->
  params_ok (fst (run_hooks s hs o t ps)).
Proof.
  induction hs as [|h hs IH]; intros o t ps Hh Hp; cbn; [exact Hp|].
  inversion Hh as [|? ? H1 H2]; subst.
  specialize (IH o t (run_hook s h o t ps qsqrt) H2 (run_hook_ok s h o t ps qsqrt H1 Hp)).
  destruct (run_hooks s hs o t (run_hook s h o t ps qsqrt)) as [ps'' calls]. exact IH.
Qed.

Lemma track_ok s ps s' : track s ps = (s', None) ->
  bnd s' = bnd s /\
  (forall f, pget "F" ps = Some f -> in_range (b_feed (bnd s)) f = true) /\
  (forall p, pget "S" ps = Some p -> in_range (b_power (bnd s)) p = true).
Proof.
  unfold track, try_feed, try_power. intros H.
  assert (Hgen : forall s1, bnd s1 = bnd s ->
    match pget "S" ps with
    | Some p => match (if negb (in_range (b_power (bnd s1)) p) then inr ValueErr
                       else if xlt p (Fin 0) then inr ValueErr else inl (set_tpower s1 p)) with
                | inl s2 => (s2, None) | inr e => (s1, Some e) end
    | None => (s1, None) end = (s', None) ->
    bnd s' = bnd s /\ (forall p, pget "S" ps = Some p -> in_range (b_power (bnd s)) p = true)).
  { intros s1 Hb. destruct (pget "S" ps) as [p|].
    - rewrite Hb. destruct (in_range (b_power (bnd s)) p) eqn:E; cbn [negb]; [|discriminate].
      destruct (xlt p (Fin 0)); [discriminate|]. intros H1. injection H1 as <-. cbn. split; [exact Hb|].
      intros p' Hp'. injection Hp' as <-. exact E.
    - intros H1. injection H1 as <-. split; [exact Hb|]. discriminate. }
  destruct (pget "F" ps) as [f|].
  - destruct (in_range (b_feed (bnd s)) f) eqn:E; cbn [negb] in H; [|discriminate].
    destruct (xlt f (Fin 0)); [discriminate|].
    destruct (Hgen (set_feed s f) eq_refl H) as [A B]. repeat split; auto.
    intros f' Hf'. injection Hf' as <-. exact E.
  - destruct (Hgen s eq_refl H) as [A B]. repeat split; auto. discriminate.
Qed.

Lemma axis_words_key dp p k v : In (k, v) (axis_words dp p) -> k = "X" \/ k = "Y" \/ k = "Z".
Proof.
  unfold axis_words. destruct (px p), (py p), (pz p); cbn; intros H;
    repeat (destruct H as [H|H]; [injection H as <- _; auto|]); contradiction.
Qed.

Lemma is_g_W n k : is_g (W "G" n) k = Z.eqb n k.
Proof.
  unfold is_g, is_code, is_letter, W. cbn [fst snd]. rewrite String.eqb_refl. cbn [andb].
  unfold Qeq_bool, inject_Z. cbn [Qnum Qden]. rewrite !Z.mul_1_r. unfold Zeq_bool.
  destruct (Z.compare_spec n k) as [->|Hlt|Hgt].
  - now rewrite Z.eqb_refl.
  - symmetry. apply Z.eqb_neq. lia.
  - symmetry. apply Z.eqb_neq. lia.
Qed.

Lemma classify_move k rest : classify (i_move k :: rest) = LMotion.
Proof. destruct k; [rewrite i_move_linear|rewrite i_move_rapid]; reflexivity. Qed.
Lemma classify_probe p rest : classify (i_probe p :: rest) = LMotion.
Proof. destruct p; vm_compute; reflexivity. Qed.

Lemma reserved_not k : reserved k = false -> k <> "G" /\ k <> "M" /\ k <> "T" /\ k <> "X" /\ k <> "Y" /\ k <> "Z".
Proof.
  unfold reserved. intros H. repeat apply orb_false_elim in H as [H ?].
  repeat split; intros ->; discriminate.
Qed.

Lemma motion_line_ok dp b hd mv ps : fst hd = "G" -> classify (hd :: axis_words dp mv ++ pwords dp ps) = LMotion ->
  params_ok ps -> params_finite ps = true ->
  (forall f, pget "F" ps = Some f -> in_range (b_feed b) f = true) ->
  (forall p, pget "S" ps = Some p -> in_range (b_power b) p = true) ->
  scalars_ok dp b (hd :: axis_words dp mv ++ pwords dp ps).
Proof.
  intros Hhd Hcls [Hnd Hres] Hfin HF HS k v rg Hin Hr. rewrite Hcls in Hr. cbn [range_for] in Hr.
  destruct Hin as [E|Hin].
  - destruct hd as [hk hv]. cbn in Hhd. subst hk. injection E as <- <-. cbn in Hr. discriminate.
  - apply in_app_or in Hin as [Hin|Hin].
    + apply axis_words_key in Hin as [->|[->| ->]]; cbn in Hr; discriminate.
    + apply pwords_in in Hin as (x & Hx & ->). pose proof (finite_in ps k x Hfin Hx) as Hfx.
      pose proof (nodup_pget ps k x Hnd Hx) as Hp.
      destruct (String.eqb_spec k "F") as [->|HnF].
      * injection Hr as <-. exists (xq x). split; [|now left]. rewrite <- Hfx. now apply HF.
      * destruct (String.eqb_spec k "S") as [->|HnS]; [|discriminate].
        injection Hr as <-. exists (xq x). split; [|now left]. rewrite <- Hfx. now apply HS.
Qed.

Lemma scalars_other dp b l : classify l = LOther -> scalars_ok dp b l.
Proof. intros H k v rg _ Hr. rewrite H in Hr. discriminate. Qed.

(* ---------------------------------------------------------------- moves *)
Definition hooks_ok2 (s : st) : Prop := Forall hook_ok2 (hooks s).

Lemma do_move_lines dp k s r mv target ps : params_ok ps -> hooks_ok2 s ->
  Forall (scalars_ok dp (bnd s)) (lines_of (do_move dp k s r mv target ps)) /\
  (lines_of (do_move dp k s r mv target ps) <> [] ->
     within (b_axes (bnd s)) target = true /\ err_of (do_move dp k s r mv target ps) = None /\
     pos (st_of (do_move dp k s r mv target ps)) = target) /\
  bnd (st_of (do_move dp k s r mv target ps)) = bnd s /\
  hooks (st_of (do_move dp k s r mv target ps)) = hooks s.
Proof.
  intros Hp Hh. unfold do_move.
  set (hk := match k, hooks s with
             | Linear, _ :: _ => run_hooks s (hooks s) (resolve (pos s)) (to_absolute s mv) ps
             | _, _ => (ps, []) end).
  assert (Hk : params_ok (fst hk)).
  { unfold hk. destruct k; [|exact Hp]. destruct (hooks s) eqn:E; [exact Hp|].
    rewrite <- E. apply run_hooks_ok; [rewrite E; unfold hooks_ok2 in Hh; rewrite E in Hh; exact Hh|exact Hp]. }
  destruct hk as [ps1 calls]. cbn [fst] in Hk.
  pose proof (track_frame s ps1) as ((_ & _ & _ & Hhk & _ & _ & Hbk & _) & _).
  destruct (track s ps1) as [s1 [e1|]] eqn:Et; cbn [fst] in Hhk, Hbk.
  - cbn. split; [constructor|]. split; [intros Hx; now destruct Hx|]. split; assumption.
  - destruct (track_ok s ps1 s1 Et) as (Hb & HF & HS).
    destruct (req_finite r && params_finite ps1) eqn:Efin; cbn [negb].
    + apply andb_prop in Efin as [_ Efin]. unfold update_axes. rewrite Hb.
      destruct (within (b_axes (bnd s)) target) eqn:Ew; cbn [ok st_of lines_of err_of].
      * split; [|split; [intros _; repeat split|split; cbn; assumption]].
        constructor; [|constructor]. unfold move_line. apply motion_line_ok; auto.
        -- destruct k; [rewrite i_move_linear|rewrite i_move_rapid]; reflexivity.
        -- apply classify_move.
      * cbn. split; [constructor|]. split; [intros Hx; now destruct Hx|]. split; assumption.
    + cbn. split; [constructor|]. split; [intros Hx; now destruct Hx|]. split; assumption.
Qed.

Lemma set_distance_line dp s d b : scalars_ok dp b (snd (set_distance s d)).
Proof. cbn. apply scalars_other. rewrite i_dmode_g. destruct d; reflexivity. Qed.

Local Arguments instr : simpl never.
Local Arguments i_move : simpl never.
Local Arguments i_offset : simpl never.
Local Arguments i_home : simpl never.
Local Arguments i_probe : simpl never.
Local Arguments i_units : simpl never.
Local Arguments i_dmode : simpl never.
Local Arguments i_emode : simpl never.
Local Arguments i_fmode : simpl never.
Local Arguments i_spin : simpl never.
Local Arguments i_power : simpl never.
Local Arguments i_swap : simpl never.
Local Arguments i_coolant : simpl never.
Local Arguments i_fan : simpl never.
Local Arguments i_bed : simpl never.
Local Arguments i_hotend : simpl never.
Local Arguments i_chamber : simpl never.
Local Arguments i_plane : simpl never.
Local Arguments i_sleep : simpl never.
Local Arguments i_query : simpl never.
Local Arguments i_halt : simpl never.
Local Arguments round_dp : simpl never.

(* ---------------------------------------------------------------- every command *)
Definition cmd_ok3 (c : cmd) : Prop :=
  match c with
  | Move _ _ ps | MoveAbs _ _ ps | SetAxis _ ps | Home _ ps | Probe _ _ ps | Polyline _ ps => params_ok ps
  | Halt _ ps => params_ok ps /\ (pget "S" ps = None \/ pget "R" ps = None)
  | AddHook h => hook_ok2 h
  | _ => True
  end.

Lemma classify_G n rest : (n <> 0)%Z -> (n <> 1)%Z -> (n < 38 \/ 39 <= n)%Z -> classify (W "G" n :: rest) = LOther.
Proof.
  intros H0 H1 H38. unfold classify. rewrite !is_g_W.
  destruct (Z.eqb_spec n 0); [contradiction|]. destruct (Z.eqb_spec n 1); [contradiction|].
  unfold is_probe_word, is_letter, W, qltb, Qle_bool. cbn [fst snd Qnum Qden orb andb].
  assert (Hp : negb (39 * 1 <=? n * 1)%Z && negb (n * 1 <=? 38 * 1)%Z = false).
  { rewrite !Z.mul_1_r. destruct H38.
    - replace (n <=? 38)%Z with true by (symmetry; apply Z.leb_le; lia). cbn. now rewrite andb_false_r.
    - replace (39 <=? n)%Z with true by (symmetry; apply Z.leb_le; lia). reflexivity. }
  cbn. rewrite andb_comm in Hp. cbn in Hp. rewrite !Z.mul_1_r in *.
  destruct (n <=? 38)%Z eqn:E1; destruct (39 <=? n)%Z eqn:E2; cbn in *; try discriminate; reflexivity.
Qed.

Lemma classify_M n rest : ~ In n [140; 190; 104; 109; 141; 191]%Z -> classify (W "M" n :: rest) = LOther.
Proof.
  intros H. unfold classify, is_g, is_code, is_probe_word, is_letter, W. cbn [fst snd].
  change (String.eqb "M" "G") with false. change (String.eqb "M" "F") with false.
  change (String.eqb "M" "S") with false. change (String.eqb "M" "T") with false. cbn [andb orb].
  change (("M", inject_Z n)) with (W "M" n). rewrite !is_m_W.
  destruct (Z.eqb_spec n 140); [exfalso; apply H; subst; cbn; auto 10|]. destruct (Z.eqb_spec n 190); [exfalso; apply H; subst; cbn; auto 10|].
  destruct (Z.eqb_spec n 104); [exfalso; apply H; subst; cbn; auto 10|]. destruct (Z.eqb_spec n 109); [exfalso; apply H; subst; cbn; auto 10|].
  destruct (Z.eqb_spec n 141); [exfalso; apply H; subst; cbn; auto 10|]. destruct (Z.eqb_spec n 191); [exfalso; apply H; subst; cbn; auto 10|].
  reflexivity.
Qed.

Lemma scalar_line dp b k x rg : xfinite x = true -> in_range rg x = true ->
  (forall k', range_for b (classify [(k, round_dp dp (xq x))]) k' = Some rg \/
              range_for b (classify [(k, round_dp dp (xq x))]) k' = None) ->
  scalars_ok dp b [(k, round_dp dp (xq x))].
Proof.
  intros Hf Hin Hr k' v rg' [E|[]] Hrg. injection E as <- <-. destruct (Hr k) as [H|H]; rewrite H in Hrg; [|discriminate].
  injection Hrg as <-. exists (xq x). split; [|now left]. destruct x; try discriminate. exact Hin.
Qed.

Lemma in_range_negb rg x : negb (in_range rg x) = false -> in_range rg x = true.
Proof. now destruct (in_range rg x). Qed.

Lemma halt_line_ok dp s h ps : params_ok ps -> (pget "S" ps = None \/ pget "R" ps = None) -> h <> HaltOff ->
  params_finite ps = true ->
  (forall t, (match pget "S" ps with Some t => Some t | None => pget "R" ps end) = Some t ->
     match h with
     | HWaitBed => in_range (b_bed (bnd s)) t = true
     | HWaitHotend => in_range (b_hotend (bnd s)) t = true
     | HWaitChamber => in_range (b_chamber (bnd s)) t = true
     | _ => True end) ->
  scalars_ok dp (bnd s) (i_halt h :: pwords dp ps).
Proof.
  intros [Hnd Hres] Hnot Hh Hfin Ht. rewrite i_halt_m by exact Hh.
  assert (Hw : forall k v rg0, (k = "S" \/ k = "R") -> In (k, v) (pwords dp ps) ->
     (forall t, (match pget "S" ps with Some t => Some t | None => pget "R" ps end) = Some t ->
        in_range rg0 t = true) -> rnd_in dp rg0 v).
  { intros k v rg0 Hk Hin Hr. apply pwords_in in Hin as (x & Hx & ->).
    pose proof (finite_in ps k x Hfin Hx) as Hfx. pose proof (nodup_pget ps k x Hnd Hx) as Hp.
    exists (xq x). split; [|now left]. rewrite <- Hfx. apply Hr.
    destruct Hk as [-> | ->]; [now rewrite Hp|]. destruct Hnot as [Hs|Hr0]; [now rewrite Hs|congruence]. }
  destruct h; try congruence;
    try (apply scalars_other; apply classify_M; cbn; intuition discriminate);
    (intros k v rg Hin Hr; destruct Hin as [E|Hin]; [injection E as <- <-; cbn in Hr; discriminate|];
     cbn in Hr; destruct (String.eqb_spec k "S") as [->|HnS];
     [injection Hr as <-; apply (Hw "S"); auto; intros t Et; exact (Ht t Et)|];
     destruct (String.eqb_spec k "R") as [->|HnR]; [|discriminate];
     injection Hr as <-; apply (Hw "R"); auto; intros t Et; exact (Ht t Et)).
Qed.

Lemma all_other dp b ls : Forall (fun l => classify l = LOther) ls -> Forall (scalars_ok dp b) ls.
Proof. intros H. eapply Forall_impl; [|exact H]. intros l Hl. now apply scalars_other. Qed.

Lemma poly_go_lines dp ps : params_ok ps -> forall pts s acc calls, hooks_ok2 s ->
  Forall (scalars_ok dp (bnd s)) acc ->
  Forall (scalars_ok dp (bnd s)) (lines_of (poly_go dp ps pts s acc calls)) /\
  hooks (st_of (poly_go dp ps pts s acc calls)) = hooks s /\ bnd (st_of (poly_go dp ps pts s acc calls)) = bnd s.
Proof.
  intros Hp. induction pts as [|p pts IH]; intros s acc calls Hh Hacc; cbn [poly_go]; [cbn; auto|].
  destruct (transform_move s (to_distance_mode s p)) as [mv t].
  match goal with |- context [do_move ?a ?b ?c ?d ?f ?g ?h] =>
    pose proof (do_move_lines a b c d f g h Hp Hh) as (Hl & _ & Hb & Hk);
    destruct (do_move a b c d f g h) as [[[s1 ls] cs] e1] end.
  cbn [st_of lines_of] in *.
  assert (Hacc' : Forall (scalars_ok dp (bnd s)) (acc ++ ls)) by (apply Forall_app; auto).
  destruct e1; [cbn; auto|].
  assert (Hh1 : hooks_ok2 s1) by (unfold hooks_ok2; rewrite Hk; exact Hh).
  rewrite <- Hb in Hacc'. destruct (IH s1 (acc ++ ls) (calls ++ cs) Hh1 Hacc') as (A & B & C).
  rewrite Hb in A. split; [exact A|]. split; congruence.
Qed.

Theorem step_scalars dp s c : cmd_ok3 c -> hooks_ok2 s ->
  Forall (scalars_ok dp (bnd s)) (lines_of (step1 dp s c)) /\ hooks_ok2 (st_of (step1 dp s c)).
Proof.
  intros Hc Hh. unfold hooks_ok2 in *. destruct c; cbn [cmd_ok3] in Hc; cbn [step1].
  - (* Move *) destruct (transform_move s (req_point r)) as [mv t].
    destruct (do_move_lines dp k s r mv t ps Hc Hh) as (A & _ & _ & D). rewrite D. auto.
  - (* MoveAbs *) destruct (dm s).
    + match goal with |- context [do_move ?a ?b ?c ?d ?f ?g ?h] =>
        pose proof (do_move_lines a b c d f g h Hc Hh) as (A & _ & _ & D);
        destruct (do_move a b c d f g h) as [[[s1 ls] cs] e1] end.
      cbn in *. rewrite D. auto.
    + unfold set_distance.
      match goal with |- context [do_move ?a ?b ?c ?d ?f ?g ?h] =>
        pose proof (do_move_lines a b c d f g h Hc Hh) as (A & _ & _ & D);
        destruct (do_move a b c d f g h) as [[[s1 ls] cs] e1] end.
      cbn [st_of lines_of bnd hooks written set_sdm set_dm set_haltm] in *. split; [|cbn; rewrite D; exact Hh].
      apply Forall_app. split; [constructor; [apply scalars_other; rewrite i_dmode_g; reflexivity|constructor]|].
      apply Forall_app. split; [exact A|]. constructor; [apply scalars_other; rewrite i_dmode_g; reflexivity|constructor].
  - (* SetAxis *) destruct (negb _); [cbn; auto|]. unfold update_axes. destruct (within _ _); cbn; [|auto].
    split; [|exact Hh]. constructor; [|constructor]. apply scalars_other. rewrite i_offset_eq. apply classify_G; lia.
  - (* Home *) destruct (negb _); [cbn; auto|]. unfold update_axes. destruct (within _ _); cbn; [|auto].
    split; [|exact Hh]. constructor; [|constructor]. apply scalars_other. rewrite i_home_eq. apply classify_G; lia.
  - (* Probe *) destruct m as [pm|]; [|cbn; auto]. destruct (transform_move s (req_point r)) as [mv t].
    destruct (negb (within _ _)); [cbn; auto|]. destruct (req_finite r && params_finite ps) eqn:Efin; cbn [negb]; [|cbn; auto].
    apply andb_prop in Efin as [_ Efin]. unfold update_axes. destruct (within _ _); [|cbn; auto].
    match goal with |- context [track ?a ?b] =>
      pose proof (track_frame a b) as ((_ & _ & _ & Hhk & _ & _ & Hbk & _) & _);
      destruct (track a b) as [s2 [e1|]] eqn:Et end; cbn [fst] in *.
    + cbn in *. rewrite Hhk. auto.
    + destruct (track_ok _ _ _ Et) as (Hb & HF & HS). cbn [bnd set_spos set_pos remember set_cparams] in *.
      cbn [ok st_of lines_of]. split; [|cbn; rewrite Hhk; exact Hh].
      constructor; [|constructor]. unfold move_line. apply motion_line_ok; auto.
      * apply (i_probe_g pm).
      * apply classify_probe.
  - (* Polyline *) destruct (poly_go_lines dp ps Hc pts s [] [] Hh (Forall_nil _)) as (A & B & _).
    rewrite B. auto.
  - destruct m as [d|]; cbn; [|auto]. split; [|exact Hh]. constructor; [|constructor].
    apply scalars_other. rewrite i_dmode_g. destruct d; reflexivity.
  - destruct (dm s); cbn; [auto|]. split; [|exact Hh]. constructor; [|constructor].
    apply scalars_other. rewrite i_dmode_g. reflexivity.
  - destruct (dm s); cbn; [|auto]. split; [|exact Hh]. constructor; [|constructor].
    apply scalars_other. rewrite i_dmode_g. reflexivity.
  - destruct (modes s) as [|p rest]; [cbn; auto|]. destruct p, (dm s); cbn; auto;
      (split; [|exact Hh]; constructor; [|constructor]; apply scalars_other; rewrite i_dmode_g; reflexivity).
  - destruct m as [d|]; cbn; [|auto]. split; [|exact Hh]. constructor; [|constructor].
    apply scalars_other. rewrite i_emode_m. apply classify_M. destruct d; cbn; intuition discriminate.
  - destruct m as [d|]; cbn; [|auto]. split; [|exact Hh]. constructor; [|constructor].
    apply scalars_other. rewrite i_fmode_g. destruct d; reflexivity.
  - destruct m as [d|]; cbn; [|auto]. split; [|exact Hh]. constructor; [|constructor].
    apply scalars_other. rewrite i_units_g. destruct d; reflexivity.
  - destruct m as [d|]; cbn; [|auto]. split; [|exact Hh]. constructor; [|constructor].
    apply scalars_other. rewrite i_plane_g. destruct d; reflexivity.
  - destruct m; cbn; auto.
  - destruct m; cbn; auto.
  - (* SetFeed *) unfold try_feed. destruct (negb (in_range _ _)) eqn:E1; [cbn; auto|].
    destruct (xlt x (Fin 0)); [cbn; auto|]. destruct (xfinite x) eqn:Ef; cbn [ok fail st_of lines_of]; [|cbn; auto].
    split; [|exact Hh]. constructor; [|constructor]. apply in_range_negb in E1.
    intros k v rg [E|[]] Hr. injection E as <- <-. cbn in Hr. injection Hr as <-.
    exists (xq x). split; [|now left]. destruct x; try discriminate. exact E1.
  - (* SetPower *) unfold try_power. destruct (negb (in_range _ _)) eqn:E1; [cbn; auto|].
    destruct (xlt x (Fin 0)); [cbn; auto|]. destruct (xfinite x) eqn:Ef; cbn [ok fail st_of lines_of]; [|cbn; auto].
    split; [|exact Hh]. constructor; [|constructor]. apply in_range_negb in E1.
    intros k v rg [E|[]] Hr. injection E as <- <-. cbn in Hr. injection Hr as <-.
    exists (xq x). split; [|now left]. destruct x; try discriminate. exact E1.
  - (* SetFan *) destruct (fan <? 0)%Z; [cbn; auto|]. destruct (_ || _); [cbn; auto|].
    destruct (xfinite speed); cbn; [|auto]. split; [|exact Hh]. constructor; [|constructor].
    apply scalars_other. rewrite i_fan_m. apply classify_M. cbn; intuition discriminate.
  - (* SetBedT *) destruct (xfinite x) eqn:Ef; cbn [negb]; [|cbn; auto].
    destruct (in_range _ _) eqn:E1; cbn [ok fail st_of lines_of]; [|cbn; auto]. split; [|exact Hh].
    constructor; [|constructor]. rewrite i_bed_m.
    intros k v rg [E|[E|[]]] Hr; injection E as <- <-; cbn in Hr; [discriminate|]. injection Hr as <-.
    exists (xq x). split; [|now left]. destruct x; try discriminate. exact E1.
  - (* SetHotendT *) destruct (xfinite x) eqn:Ef; cbn [negb]; [|cbn; auto].
    destruct (in_range _ _) eqn:E1; cbn [ok fail st_of lines_of]; [|cbn; auto]. split; [|exact Hh].
    constructor; [|constructor]. rewrite i_hotend_m.
    intros k v rg [E|[E|[]]] Hr; injection E as <- <-; cbn in Hr; [discriminate|]. injection Hr as <-.
    exists (xq x). split; [|now left]. destruct x; try discriminate. exact E1.
  - (* SetChamberT *) destruct (xfinite x) eqn:Ef; cbn [negb]; [|cbn; auto].
    destruct (in_range _ _) eqn:E1; cbn [ok fail st_of lines_of]; [|cbn; auto]. split; [|exact Hh].
    constructor; [|constructor]. rewrite i_chamber_m.
    intros k v rg [E|[E|[]]] Hr; injection E as <- <-; cbn in Hr; [discriminate|]. injection Hr as <-.
    exists (xq x). split; [|now left]. destruct x; try discriminate. exact E1.
  - (* Sleep *) destruct (xlt x (Fin 0)); [cbn; auto|]. destruct (xfinite x); cbn; [|auto].
    split; [|exact Hh]. constructor; [|constructor]. apply scalars_other. rewrite i_sleep_g. reflexivity.
  - (* ToolOn *) destruct m as [sm|]; [|cbn; auto].
    assert (Hgen : forall sm', sm' <> SpinOff ->
      let r := (if tool_on s then fail s [] ToolStateErr
        else match try_power s x with
             | inr e => fail s [] e
             | inl s1 => let s2 := set_spinm (set_tool_on s1 true) sm' in
                         if xfinite x then ok (written s2) [[("S", round_dp dp (xq x)); i_spin sm']]
                         else fail s2 [] ValueErr end) in
      Forall (scalars_ok dp (bnd s)) (lines_of r) /\ Forall hook_ok2 (hooks (st_of r))).
    { intros sm' Hne. destruct (tool_on s); [cbn; auto|]. unfold try_power.
      destruct (negb (in_range _ _)) eqn:E1; [cbn; auto|]. destruct (xlt x (Fin 0)); [cbn; auto|].
      destruct (xfinite x) eqn:Ef; cbn [ok fail st_of lines_of]; [|cbn; auto]. split; [|exact Hh].
      constructor; [|constructor]. apply in_range_negb in E1. rewrite i_spin_m.
      intros k v rg [E|[E|[]]] Hr; injection E as <- <-; cbn in Hr; [|discriminate]. injection Hr as <-.
      exists (xq x). split; [|now left]. destruct x; try discriminate. exact E1. }
    destruct sm; [cbn; auto| |]; apply Hgen; discriminate.
  - (* ToolOff *) cbn. split; [|exact Hh]. constructor; [|constructor]. apply scalars_other.
    rewrite i_spin_m. apply classify_M. cbn; intuition discriminate.
  - (* PowerOn *) destruct m as [pm|]; [|cbn; auto].
    assert (Hgen : forall pm', pm' <> PowOff ->
      let r := (if tool_on s then fail s [] ToolStateErr
        else match try_power s x with
             | inr e => fail s [] e
             | inl s1 => let s2 := set_powerm (set_tool_on s1 true) pm' in
                         if xfinite x then ok (written s2) [[("S", round_dp dp (xq x)); i_power pm']]
                         else fail s2 [] ValueErr end) in
      Forall (scalars_ok dp (bnd s)) (lines_of r) /\ Forall hook_ok2 (hooks (st_of r))).
    { intros pm' Hne. destruct (tool_on s); [cbn; auto|]. unfold try_power.
      destruct (negb (in_range _ _)) eqn:E1; [cbn; auto|]. destruct (xlt x (Fin 0)); [cbn; auto|].
      destruct (xfinite x) eqn:Ef; cbn [ok fail st_of lines_of]; [|cbn; auto]. split; [|exact Hh].
      constructor; [|constructor]. apply in_range_negb in E1. rewrite i_power_m.
      intros k v rg [E|[E|[]]] Hr; injection E as <- <-; cbn in Hr; [|discriminate]. injection Hr as <-.
      exists (xq x). split; [|now left]. destruct x; try discriminate. exact E1. }
    destruct pm; [cbn; auto| |]; apply Hgen; discriminate.
  - (* PowerOff *) cbn. split; [|exact Hh]. constructor; [|constructor]. apply scalars_other.
    rewrite i_power_m. apply classify_M. cbn; intuition discriminate.
  - (* ToolChange *) destruct m as [sm|]; [|cbn; auto].
    assert (Hgen : forall sm', sm' <> SwapOff ->
      let r := (if negb (in_range (b_toolnum (bnd s)) (Fin (inject_Z n))) then fail s [] ValueErr
        else if (n <? 1)%Z then fail s [] ValueErr else if tool_on s then fail s [] ToolStateErr
        else if cool_on s then fail s [] CoolantStateErr
        else ok (written (set_swapm (set_toolnum s n) sm')) [[("T", inject_Z n); i_swap sm']]) in
      Forall (scalars_ok dp (bnd s)) (lines_of r) /\ Forall hook_ok2 (hooks (st_of r))).
    { intros sm' Hne. destruct (negb (in_range _ _)) eqn:E1; [cbn; auto|]. destruct (n <? 1)%Z; [cbn; auto|].
      destruct (tool_on s); [cbn; auto|]. destruct (cool_on s); [cbn; auto|].
      cbn [ok st_of lines_of]. split; [|exact Hh]. constructor; [|constructor]. apply in_range_negb in E1.
      rewrite i_swap_m by exact Hne.
      intros k v rg [E|[E|[]]] Hr; injection E as <- <-; cbn in Hr; [|discriminate]. injection Hr as <-.
      exists (inject_Z n). split; [exact E1|now right]. }
    destruct sm; [cbn; auto| |]; apply Hgen; discriminate.
  - (* CoolantOn *) destruct m as [cm|]; [|cbn; auto].
    destruct cm; [cbn; auto| |]; (destruct (cool_on s); cbn; [auto|]; split; [|exact Hh];
      constructor; [|constructor]; apply scalars_other; rewrite i_coolant_m; apply classify_M; cbn; intuition discriminate).
  - (* CoolantOff *) cbn. split; [|exact Hh]. constructor; [|constructor]. apply scalars_other.
    rewrite i_coolant_m. apply classify_M. cbn; intuition discriminate.
  - (* Halt *) destruct Hc as [Hp Hnot]. destruct m as [h|]; [|cbn; auto].
    assert (Hgen : forall h', h' <> HaltOff ->
      Forall (scalars_ok dp (bnd s)) (lines_of (halt_cmd dp s h' ps)) /\
      Forall hook_ok2 (hooks (st_of (halt_cmd dp s h' ps)))).
    { intros h' Hne. unfold halt_cmd, try_halt. destruct (tool_on s); [cbn; auto|]. destruct (cool_on s); [cbn; auto|].
      set (temp := match pget "S" ps with Some t => Some t | None => pget "R" ps end).
      assert (Hcase : forall (s2 : st) (Hb : bnd s2 = bnd s) (Hk : hooks s2 = hooks s)
        (Ht : forall t, temp = Some t -> match h' with
             | HWaitBed => in_range (b_bed (bnd s)) t = true
             | HWaitHotend => in_range (b_hotend (bnd s)) t = true
             | HWaitChamber => in_range (b_chamber (bnd s)) t = true
             | _ => True end),
        Forall (scalars_ok dp (bnd s)) (lines_of (if negb (params_finite ps) then fail s2 [] ValueErr
                   else ok (written s2) [i_halt h' :: pwords dp ps])) /\
        Forall hook_ok2 (hooks (st_of (if negb (params_finite ps) then fail s2 [] ValueErr
                   else ok (written s2) [i_halt h' :: pwords dp ps])))).
      { intros s2 Hb Hk Ht. destruct (params_finite ps) eqn:Ef; cbn [negb ok fail st_of lines_of]; [|cbn; rewrite Hk; auto].
        split; [|cbn; rewrite Hk; exact Hh]. constructor; [|constructor]. now apply halt_line_ok. }
      destruct temp as [t|] eqn:Et.
      - destruct h'; try (apply Hcase; [reflexivity|reflexivity|intros; exact I]); try congruence.
        + destruct (in_range (b_bed (bnd (set_haltm s HWaitBed))) t) eqn:E; [|cbn; auto].
          apply Hcase; [reflexivity|reflexivity|]. intros t' Ht'. injection Ht' as <-. exact E.
        + destruct (in_range (b_hotend (bnd (set_haltm s HWaitHotend))) t) eqn:E; [|cbn; auto].
          apply Hcase; [reflexivity|reflexivity|]. intros t' Ht'. injection Ht' as <-. exact E.
        + destruct (in_range (b_chamber (bnd (set_haltm s HWaitChamber))) t) eqn:E; [|cbn; auto].
          apply Hcase; [reflexivity|reflexivity|]. intros t' Ht'. injection Ht' as <-. exact E.
      - apply Hcase; [reflexivity|reflexivity|]. intros t' Ht'. discriminate. }
    destruct h; try (apply Hgen; discriminate). cbn; auto.
  - (* EmergencyHalt *)
    match goal with |- context [halt_cmd ?a ?b ?c ?d] => set (hc := halt_cmd a b c d) end.
    assert (Hhc : Forall (scalars_ok dp (bnd s)) (lines_of hc) /\ Forall hook_ok2 (hooks (st_of hc))).
    { unfold hc, halt_cmd, try_halt. cbn. destruct reset; cbn; (split; [|exact Hh]);
        (constructor; [|constructor]); apply scalars_other; rewrite i_halt_m by discriminate;
        apply classify_M; cbn; intuition discriminate. }
    destruct hc as [[[s4 ls] cs] e4]. cbn [st_of lines_of] in *. destruct Hhc as [A B]. split; [|exact B].
    repeat (constructor; [apply scalars_other; first [rewrite i_spin_m|rewrite i_coolant_m|idtac];
                          first [apply classify_M; cbn; intuition discriminate|reflexivity]|]).
    exact A.
  - (* Query *) destruct m as [q|]; cbn; [|auto]. split; [|exact Hh]. constructor; [|constructor].
    apply scalars_other. rewrite i_query_m. apply classify_M. destruct q; cbn; intuition discriminate.
  - cbn. split; [|exact Hh]. constructor; [|constructor]. now apply scalars_other.
  - destruct valid_key; cbn; [|auto]. split; [|exact Hh]. constructor; [|constructor]. now apply scalars_other.
  - destruct n; cbn; auto; try (destruct slo; cbn; auto; destruct shi; cbn; auto; destruct (qleb _ _); cbn; auto).
    destruct (ge_point lo hi); cbn; auto.
  - destruct (existsb _ _); cbn; [auto|]. split; [constructor|]. apply Forall_app. split; [exact Hh|].
    constructor; [exact Hc|constructor].
  - cbn. split; [constructor|]. rewrite Forall_forall in *. intros h Hin. apply filter_In in Hin. apply Hh. tauto.
  - cbn. auto.
Qed.

(* ---------------------------------------------------------------- all histories *)
Fixpoint all_steps_ok (dp : nat) (s : st) (cs : list cmd) : Prop :=
  match cs with
  | [] => True
  | c :: cs' => Forall (scalars_ok dp (bnd s)) (lines_of (step1 dp s c)) /\
                all_steps_ok dp (st_of (step1 dp s c)) cs'
  end.

Theorem history_scalars dp cs : forall s, Forall cmd_ok3 cs -> hooks_ok2 s -> all_steps_ok dp s cs.
Proof.
  induction cs as [|c cs IH]; intros s Hc Hh; [exact I|]. inversion Hc as [|? ? H1 H2]; subst.
  destruct (step_scalars dp s c H1 Hh) as [A B]. split; [exact A|]. now apply IH.
Qed.

(* motion targets in builder coordinates *)
Theorem move_target_in_box dp s k r ps : params_ok ps -> hooks_ok2 s ->
  lines_of (step1 dp s (Move k r ps)) <> [] ->
  within (b_axes (bnd s)) (to_absolute s (req_point r)) = true /\
  pos (st_of (step1 dp s (Move k r ps))) = to_absolute s (req_point r).
Proof.
  intros Hp Hh. cbn [step1]. unfold transform_move.
  match goal with |- context [do_move ?a ?b ?c ?d ?f ?g ?h] =>
    destruct (do_move_lines a b c d f g h Hp Hh) as (_ & B & _) end.
  intros H. destruct (B H) as (X & _ & Y). auto.
Qed.

Lemma do_move_ok_lines dp k s r mv t ps :
  err_of (do_move dp k s r mv t ps) = None -> lines_of (do_move dp k s r mv t ps) <> [].
Proof.
  unfold do_move.
  destruct (match k, hooks s with
            | Linear, _ :: _ => run_hooks s (hooks s) (resolve (pos s)) (to_absolute s mv) ps
            | _, _ => (ps, []) end) as [ps1 calls].
  destruct (track s ps1) as [s2 [e2|]]; [discriminate|]. destruct (negb _); [discriminate|].
  destruct (update_axes _ _ _ _); cbn; [discriminate|discriminate].
Qed.

Theorem move_abs_target_in_box dp s k r ps : params_ok ps -> hooks_ok2 s ->
  err_of (step1 dp s (MoveAbs k r ps)) = None ->
  within (b_axes (bnd s)) (replace (pos s) (req_point r)) = true.
Proof.
  intros Hp Hh. cbn [step1]. destruct (dm s).
  - match goal with |- context [do_move ?a ?b ?c ?d ?f ?g ?h] =>
      pose proof (do_move_lines a b c d f g h Hp Hh) as (_ & B & _);
      pose proof (do_move_ok_lines a b c d f g h) as L;
      destruct (do_move a b c d f g h) as [[[s1 ls] cs] e1] end.
    cbn [err_of lines_of st_of] in *. intros ->. destruct (B (L eq_refl)) as (X & _). exact X.
  - unfold set_distance.
    match goal with |- context [do_move ?a ?b ?c ?d ?f ?g ?h] =>
      assert (Hh' : hooks_ok2 c) by exact Hh;
      pose proof (do_move_lines a b c d f g h Hp Hh') as (_ & B & _);
      pose proof (do_move_ok_lines a b c d f g h) as L;
      destruct (do_move a b c d f g h) as [[[s1 ls] cs] e1] end.
    cbn [err_of lines_of st_of bnd written set_sdm set_dm set_haltm] in *. intros ->.
    destruct (B (L eq_refl)) as (X & _). exact X.
Qed.

Theorem probe_target_in_box dp s m r ps :
  lines_of (step1 dp s (Probe m r ps)) <> [] ->
  within (b_axes (bnd s)) (to_absolute s (req_point r)) = true.
Proof.
  cbn [step1]. destruct m as [pm|]; [|intros H; now destruct H]. unfold transform_move.
  destruct (within (b_axes (bnd s)) (to_absolute s (req_point r))); [reflexivity|].
  cbn. intros H. now destruct H.
Qed.

(* NaN and the infinities never pass a bound *)
Theorem nonfinite_out_of_range lo hi x : xfinite x = false -> in_range (Some (lo, hi)) x = false.
Proof. destruct x; cbn; try discriminate; intros _; auto; now rewrite ?andb_false_r. Qed.

(* the emitted word stays within half a unit of the last place of the bounds *)
Theorem rnd_in_bounds dp lo hi v : rnd_in dp (Some (lo, hi)) v ->
  (lo - half_unit dp <= v /\ v <= hi + half_unit dp)%Q.
Proof.
  intros (x & Hin & Hv). cbn in Hin. apply andb_prop in Hin as [H1 H2].
  apply qleb_le in H1. apply qleb_le in H2. pose proof (half_unit_pos dp) as Hp.
  destruct Hv as [-> | ->]; [now apply round_in_range|split; lra].
Qed.
